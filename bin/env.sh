# sourced by the scripts in this directory
export GOFLAGS=-mod=mod GOPROXY=off GOSUMDB=off GOTOOLCHAIN=local
export VERIF_ROOT="${VERIF_ROOT:-$(cd "$(dirname "${BASH_SOURCE[0]}")/.." && pwd)}"
export REPO="${VERIF_REPO:-/repo}"
