# sourced by the scripts in this directory
export GOFLAGS=-mod=mod GOPROXY=off GOSUMDB=off GOTOOLCHAIN=local
export VERIF_ROOT="${VERIF_ROOT:-$(cd "$(dirname "${BASH_SOURCE[0]}")/.." && pwd)}"
export REPO="${VERIF_REPO:-/repo}"
# a run against another tree than /repo (VERIF_REPO=...) must not overwrite the
# evidence of the real tree (vp run snapshots have their own evidence/ anyway)
if [ -n "${VERIF_REPO:-}" ] && [ "$VERIF_REPO" != /repo ] && [ -z "${VERIF_EVIDENCE_DIR:-}" ] && [ -z "${VP_RUN_REPO:-}" ]; then
  export VERIF_EVIDENCE_DIR=/dev/shm/verif-evidence-scratch
fi
