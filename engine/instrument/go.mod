module verif/instrument

go 1.21
