// Command instrument rewrites the concurrency constructs of the non-test Go
// files of the given package directories so that they run under
// zzverif/vsched. It is a syntax-directed source-to-source pass; go/types is
// used only to recognise `range` over maps and channels.
//
// usage: instrument -mod <module path> <pkgdir>...
//
// Any construct it does not know how to rewrite is a hard error (exit 2):
// a future edit must not silently escape the scheduler.
package main

import (
	"bytes"
	"flag"
	"fmt"
	"go/ast"
	"go/format"
	"go/importer"
	"go/parser"
	"go/token"
	"go/types"
	"io"
	"os"
	"os/exec"
	"path/filepath"
	"sort"
	"strconv"
	"strings"
)

var modPath = flag.String("mod", "github.com/frobnitzem/go-p9p", "module path")

func fatalf(f string, a ...any) {
	fmt.Fprintf(os.Stderr, "ENGINE-ERROR instrument: "+f+"\n", a...)
	os.Exit(2)
}

type rewriter struct {
	fset    *token.FileSet
	info    *types.Info
	file    *ast.File
	fname   string
	used    bool // vsched import needed
	counter int
	ctxName string // local name of the "context" import, "" if none
}

func main() {
	flag.Parse()
	var dirs []string
	for _, d := range flag.Args() {
		dirs = append(dirs, "./"+d)
	}
	loadExports(dirs)
	for _, dir := range flag.Args() {
		doPkg(dir)
	}
}

var exports = map[string]string{}

// loadExports maps import paths to compiler export data (from the build
// cache), so type checking does not have to parse the standard library.
func loadExports(dirs []string) {
	args := append([]string{"list", "-export", "-deps", "-f", "{{.ImportPath}}={{.Export}}"}, dirs...)
	cmd := exec.Command("go", args...)
	cmd.Stderr = os.Stderr
	out, err := cmd.Output()
	if err != nil {
		fatalf("go list -export: %v", err)
	}
	for _, l := range strings.Split(string(out), "\n") {
		if i := strings.Index(l, "="); i > 0 && i+1 < len(l) {
			exports[l[:i]] = l[i+1:]
		}
	}
}

func lookupExport(path string) (io.ReadCloser, error) {
	f, ok := exports[path]
	if !ok {
		return nil, fmt.Errorf("no export data for %s", path)
	}
	return os.Open(f)
}

func doPkg(dir string) {
	fset := token.NewFileSet()
	ents, err := os.ReadDir(dir)
	if err != nil {
		fatalf("%v", err)
	}
	var files []*ast.File
	var names []string
	for _, e := range ents {
		n := e.Name()
		if e.IsDir() || !strings.HasSuffix(n, ".go") || strings.HasSuffix(n, "_test.go") {
			continue
		}
		if strings.HasSuffix(n, "_darwin.go") || strings.HasSuffix(n, "_windows.go") {
			continue
		}
		f, err := parser.ParseFile(fset, filepath.Join(dir, n), nil, parser.ParseComments)
		if err != nil {
			fatalf("parse %s: %v", n, err)
		}
		var keep []*ast.CommentGroup
		for _, cg := range f.Comments {
			if cg.End() < f.Package {
				keep = append(keep, cg)
			}
		}
		f.Comments = keep
		files = append(files, f)
		names = append(names, filepath.Join(dir, n))
	}
	info := &types.Info{Types: map[ast.Expr]types.TypeAndValue{}, Uses: map[*ast.Ident]types.Object{}, Defs: map[*ast.Ident]types.Object{}}
	conf := types.Config{
		Importer: importer.ForCompiler(fset, "gc", lookupExport),
		Error:    func(err error) {}, // best effort: unresolved identifiers only lose map/chan range detection
	}
	conf.Check(dir, fset, files, info)
	for i, f := range files {
		rw := &rewriter{fset: fset, info: info, file: f, fname: filepath.Base(names[i])}
		rw.run()
		var buf bytes.Buffer
		if err := format.Node(&buf, fset, f); err != nil {
			fatalf("print %s: %v", names[i], err)
		}
		if err := os.WriteFile(names[i], buf.Bytes(), 0644); err != nil {
			fatalf("%v", err)
		}
	}
}

func (rw *rewriter) site(n ast.Node) *ast.BasicLit {
	p := rw.fset.Position(n.Pos())
	return &ast.BasicLit{Kind: token.STRING, Value: strconv.Quote(fmt.Sprintf("%s:%d", rw.fname, p.Line))}
}

func (rw *rewriter) tmp(prefix string) string {
	rw.counter++
	return fmt.Sprintf("_vz%s%d", prefix, rw.counter)
}

func id(s string) *ast.Ident { return ast.NewIdent(s) }

func (rw *rewriter) vs(fn string) ast.Expr {
	rw.used = true
	return &ast.SelectorExpr{X: id("vsched"), Sel: id(fn)}
}

func call(fn ast.Expr, args ...ast.Expr) *ast.CallExpr { return &ast.CallExpr{Fun: fn, Args: args} }

func define(lhs []ast.Expr, rhs ...ast.Expr) *ast.AssignStmt {
	return &ast.AssignStmt{Lhs: lhs, Tok: token.DEFINE, Rhs: rhs}
}

func (rw *rewriter) run() {
	f := rw.file
	// imports
	for _, imp := range f.Imports {
		p, _ := strconv.Unquote(imp.Path.Value)
		switch p {
		case "sync":
			if imp.Name != nil && imp.Name.Name != "sync" {
				fatalf("%s: renamed import of sync is not supported", rw.fname)
			}
			imp.Path.Value = strconv.Quote(*modPath + "/zzverif/vsync")
			imp.Name = id("sync")
		case "sync/atomic":
			if imp.Name != nil && imp.Name.Name != "atomic" {
				fatalf("%s: renamed import of sync/atomic is not supported", rw.fname)
			}
			imp.Path.Value = strconv.Quote(*modPath + "/zzverif/vatomic")
			imp.Name = id("atomic")
		case "context":
			rw.ctxName = "context"
			if imp.Name != nil {
				rw.ctxName = imp.Name.Name
			}
		}
	}
	for _, d := range f.Decls {
		switch d := d.(type) {
		case *ast.FuncDecl:
			if d.Body != nil {
				rw.block(d.Body)
			}
		case *ast.GenDecl:
			// function literals in package-level initialisers
			ast.Inspect(d, func(n ast.Node) bool {
				if fl, ok := n.(*ast.FuncLit); ok {
					rw.block(fl.Body)
					return false
				}
				return true
			})
		}
	}
	if rw.used {
		spec := &ast.ImportSpec{Path: &ast.BasicLit{Kind: token.STRING, Value: strconv.Quote(*modPath + "/zzverif/vsched")}}
		decl := &ast.GenDecl{Tok: token.IMPORT, Specs: []ast.Spec{spec}}
		f.Decls = append([]ast.Decl{decl}, f.Decls...)
		f.Imports = append(f.Imports, spec)
	}
}

func (rw *rewriter) block(b *ast.BlockStmt) {
	if b == nil {
		return
	}
	b.List = rw.stmts(b.List)
}

func (rw *rewriter) stmts(list []ast.Stmt) []ast.Stmt {
	out := make([]ast.Stmt, 0, len(list))
	for _, s := range list {
		out = append(out, rw.stmt(s))
	}
	return out
}

// exprs rewrites expression-level constructs inside n (receives, close,
// context constructors) and descends into function literals. Statement
// lists nested in n must be handled by the caller.
func (rw *rewriter) exprs(n ast.Node) {
	if n == nil {
		return
	}
	ast.Inspect(n, func(x ast.Node) bool {
		switch x := x.(type) {
		case *ast.FuncLit:
			rw.block(x.Body)
			return false
		case *ast.CallExpr:
			if fn, ok := x.Fun.(*ast.Ident); ok && fn.Name == "close" && len(x.Args) == 1 {
				if obj, known := rw.info.Uses[fn]; !known || obj.Parent() == types.Universe {
					x.Fun = rw.vs("CloseChan")
					x.Args = []ast.Expr{rw.site(x), x.Args[0]}
				}
			}
			if sel, ok := x.Fun.(*ast.SelectorExpr); ok && rw.ctxName != "" {
				if pk, ok := sel.X.(*ast.Ident); ok && pk.Name == rw.ctxName {
					switch sel.Sel.Name {
					case "WithCancel", "WithTimeout", "WithDeadline":
						x.Fun = rw.vs(sel.Sel.Name)
					case "WithCancelCause", "WithTimeoutCause", "WithDeadlineCause", "AfterFunc":
						fatalf("%s: unsupported construct context.%s at %v", rw.fname, sel.Sel.Name, rw.fset.Position(x.Pos()))
					}
				}
			}
		case *ast.UnaryExpr:
			if x.Op == token.ARROW {
				fatalf("%s: unsupported construct: receive expression in this position at %v", rw.fname, rw.fset.Position(x.Pos()))
			}
		}
		return true
	})
}

// recvExpr turns `<-ch` into vsched.Recv(site, ch).
func (rw *rewriter) recvExpr(u *ast.UnaryExpr, two bool) ast.Expr {
	rw.exprs(u.X)
	fn := "Recv"
	if two {
		fn = "Recv2"
	}
	return call(rw.vs(fn), rw.site(u), u.X)
}

func isRecv(e ast.Expr) (*ast.UnaryExpr, bool) {
	for {
		p, ok := e.(*ast.ParenExpr)
		if !ok {
			break
		}
		e = p.X
	}
	u, ok := e.(*ast.UnaryExpr)
	return u, ok && u.Op == token.ARROW
}

func (rw *rewriter) stmt(s ast.Stmt) ast.Stmt {
	switch s := s.(type) {
	case nil:
		return nil
	case *ast.BlockStmt:
		rw.block(s)
	case *ast.IfStmt:
		s.Init = rw.stmt(s.Init)
		rw.exprs(s.Cond)
		rw.block(s.Body)
		s.Else = rw.stmt(s.Else)
	case *ast.ForStmt:
		s.Init = rw.stmt(s.Init)
		rw.exprs(s.Cond)
		s.Post = rw.stmt(s.Post)
		rw.block(s.Body)
	case *ast.RangeStmt:
		return rw.rangeStmt(s)
	case *ast.SwitchStmt:
		s.Init = rw.stmt(s.Init)
		rw.exprs(s.Tag)
		for _, c := range s.Body.List {
			cc := c.(*ast.CaseClause)
			for _, e := range cc.List {
				rw.exprs(e)
			}
			cc.Body = rw.stmts(cc.Body)
		}
	case *ast.TypeSwitchStmt:
		s.Init = rw.stmt(s.Init)
		s.Assign = rw.stmt(s.Assign)
		for _, c := range s.Body.List {
			cc := c.(*ast.CaseClause)
			cc.Body = rw.stmts(cc.Body)
		}
	case *ast.LabeledStmt:
		if sel, ok := s.Stmt.(*ast.SelectStmt); ok {
			return rw.selectStmt(sel, s.Label)
		}
		s.Stmt = rw.stmt(s.Stmt)
	case *ast.SelectStmt:
		return rw.selectStmt(s, nil)
	case *ast.GoStmt:
		return rw.goStmt(s)
	case *ast.SendStmt:
		rw.exprs(s.Chan)
		rw.exprs(s.Value)
		return &ast.ExprStmt{X: call(rw.vs("Send"), rw.site(s), s.Chan, s.Value)}
	case *ast.ExprStmt:
		if u, ok := isRecv(s.X); ok {
			s.X = rw.recvExpr(u, false)
			return s
		}
		rw.exprs(s.X)
	case *ast.AssignStmt:
		if len(s.Rhs) == 1 {
			if u, ok := isRecv(s.Rhs[0]); ok {
				for _, l := range s.Lhs {
					rw.exprs(l)
				}
				s.Rhs[0] = rw.recvExpr(u, len(s.Lhs) == 2)
				return s
			}
		}
		for _, e := range s.Lhs {
			rw.exprs(e)
		}
		for i, e := range s.Rhs {
			if u, ok := isRecv(e); ok {
				s.Rhs[i] = rw.recvExpr(u, false)
				continue
			}
			rw.exprs(e)
		}
	case *ast.DeclStmt:
		if gd, ok := s.Decl.(*ast.GenDecl); ok {
			for _, sp := range gd.Specs {
				if vsp, ok := sp.(*ast.ValueSpec); ok {
					for i, e := range vsp.Values {
						if u, ok := isRecv(e); ok {
							vsp.Values[i] = rw.recvExpr(u, len(vsp.Names) == 2 && len(vsp.Values) == 1)
							continue
						}
						rw.exprs(e)
					}
				}
			}
		}
	case *ast.ReturnStmt:
		for i, e := range s.Results {
			if u, ok := isRecv(e); ok {
				s.Results[i] = rw.recvExpr(u, false)
				continue
			}
			rw.exprs(e)
		}
	case *ast.DeferStmt:
		rw.exprs(s.Call)
	case *ast.IncDecStmt:
		rw.exprs(s.X)
	case *ast.BranchStmt, *ast.EmptyStmt:
	case *ast.CaseClause, *ast.CommClause:
		fatalf("%s: stray clause", rw.fname)
	default:
		fatalf("%s: unsupported statement %T at %v", rw.fname, s, rw.fset.Position(s.Pos()))
	}
	return s
}

func (rw *rewriter) typeOf(e ast.Expr) types.Type {
	if tv, ok := rw.info.Types[e]; ok && tv.Type != nil {
		return tv.Type.Underlying()
	}
	return nil
}

func blank(e ast.Expr) bool {
	if e == nil {
		return true
	}
	i, ok := e.(*ast.Ident)
	return ok && i.Name == "_"
}

func (rw *rewriter) rangeStmt(s *ast.RangeStmt) ast.Stmt {
	t := rw.typeOf(s.X)
	rw.exprs(s.X)
	rw.block(s.Body)
	switch t.(type) {
	case *types.Map:
		if s.Tok == token.ASSIGN {
			fatalf("%s: unsupported construct: range over map with '=' at %v", rw.fname, rw.fset.Position(s.Pos()))
		}
		m := rw.tmp("m")
		var k ast.Expr = id(rw.tmp("k"))
		if !blank(s.Key) {
			k = s.Key
		}
		okv := rw.tmp("ok")
		var v ast.Expr = id("_")
		if !blank(s.Value) {
			v = s.Value
		}
		pre := []ast.Stmt{
			define([]ast.Expr{v, id(okv)}, &ast.IndexExpr{X: id(m), Index: k}),
			&ast.IfStmt{Cond: &ast.UnaryExpr{Op: token.NOT, X: id(okv)}, Body: &ast.BlockStmt{List: []ast.Stmt{&ast.BranchStmt{Tok: token.CONTINUE}}}},
		}
		if !blank(s.Key) {
			// keep "declared and not used" away when the body ignores k
		}
		body := &ast.BlockStmt{List: append(pre, s.Body.List...)}
		loop := &ast.RangeStmt{Key: id("_"), Value: k, Tok: token.DEFINE, X: call(rw.vs("MapKeys"), id(m)), Body: body}
		return &ast.BlockStmt{List: []ast.Stmt{define([]ast.Expr{id(m)}, s.X), loop}}
	case *types.Chan:
		if s.Tok == token.ASSIGN {
			fatalf("%s: unsupported construct: range over channel with '=' at %v", rw.fname, rw.fset.Position(s.Pos()))
		}
		c := rw.tmp("c")
		okv := rw.tmp("ok")
		var v ast.Expr = id("_")
		tok := token.DEFINE
		if !blank(s.Key) {
			v = s.Key
		}
		pre := []ast.Stmt{
			&ast.AssignStmt{Lhs: []ast.Expr{v, id(okv)}, Tok: tok, Rhs: []ast.Expr{call(rw.vs("Recv2"), rw.site(s), id(c))}},
			&ast.IfStmt{Cond: &ast.UnaryExpr{Op: token.NOT, X: id(okv)}, Body: &ast.BlockStmt{List: []ast.Stmt{&ast.BranchStmt{Tok: token.BREAK}}}},
		}
		body := &ast.BlockStmt{List: append(pre, s.Body.List...)}
		return &ast.BlockStmt{List: []ast.Stmt{define([]ast.Expr{id(c)}, s.X), &ast.ForStmt{Body: body}}}
	}
	return s
}

func constLike(e ast.Expr) bool {
	switch e := e.(type) {
	case *ast.BasicLit:
		return true
	case *ast.Ident:
		return e.Name == "nil" || e.Name == "true" || e.Name == "false"
	}
	return false
}

func (rw *rewriter) goStmt(s *ast.GoStmt) ast.Stmt {
	c := s.Call
	var pre []ast.Stmt
	var lhs, rhs []ast.Expr
	fun := c.Fun
	if fl, ok := fun.(*ast.FuncLit); ok {
		rw.block(fl.Body)
	} else {
		rw.exprs(fun)
		f := rw.tmp("f")
		lhs = append(lhs, id(f))
		rhs = append(rhs, fun)
		fun = id(f)
	}
	args := make([]ast.Expr, len(c.Args))
	for i, a := range c.Args {
		rw.exprs(a)
		if constLike(a) {
			args[i] = a
			continue
		}
		n := rw.tmp("a")
		lhs = append(lhs, id(n))
		rhs = append(rhs, a)
		args[i] = id(n)
	}
	if len(lhs) > 0 {
		pre = append(pre, define(lhs, rhs...))
	}
	inner := &ast.CallExpr{Fun: fun, Args: args, Ellipsis: c.Ellipsis}
	if c.Ellipsis != token.NoPos {
		inner.Ellipsis = 1
	}
	lit := &ast.FuncLit{Type: &ast.FuncType{Params: &ast.FieldList{}}, Body: &ast.BlockStmt{List: []ast.Stmt{&ast.ExprStmt{X: inner}}}}
	pre = append(pre, &ast.ExprStmt{X: call(rw.vs("Go"), rw.site(s), lit)})
	return &ast.BlockStmt{List: pre}
}

func (rw *rewriter) selectStmt(s *ast.SelectStmt, label *ast.Ident) ast.Stmt {
	var pre []ast.Stmt
	var cases []ast.Expr
	var clauses []ast.Stmt
	hasDefault := false
	iv, rv, okv := rw.tmp("i"), rw.tmp("rv"), rw.tmp("ok")
	idx := 0
	for _, cl := range s.Body.List {
		cc := cl.(*ast.CommClause)
		body := rw.stmts(cc.Body)
		if cc.Comm == nil {
			hasDefault = true
			clauses = append(clauses, &ast.CaseClause{List: nil, Body: body})
			continue
		}
		var head []ast.Stmt
		switch comm := cc.Comm.(type) {
		case *ast.SendStmt:
			rw.exprs(comm.Chan)
			rw.exprs(comm.Value)
			c, v := rw.tmp("c"), rw.tmp("v")
			pre = append(pre, define([]ast.Expr{id(c)}, comm.Chan))
			pre = append(pre, define([]ast.Expr{id(v)}, call(rw.vs("ValFor"), id(c), comm.Value)))
			cases = append(cases, call(rw.vs("SendCase"), id(c), id(v)))
		case *ast.ExprStmt:
			u, ok := isRecv(comm.X)
			if !ok {
				fatalf("%s: unsupported comm clause at %v", rw.fname, rw.fset.Position(comm.Pos()))
			}
			rw.exprs(u.X)
			c := rw.tmp("c")
			pre = append(pre, define([]ast.Expr{id(c)}, u.X))
			cases = append(cases, call(rw.vs("RecvCase"), id(c)))
		case *ast.AssignStmt:
			u, ok := isRecv(comm.Rhs[0])
			if !ok || len(comm.Rhs) != 1 {
				fatalf("%s: unsupported comm clause at %v", rw.fname, rw.fset.Position(comm.Pos()))
			}
			rw.exprs(u.X)
			c := rw.tmp("c")
			pre = append(pre, define([]ast.Expr{id(c)}, u.X))
			cases = append(cases, call(rw.vs("RecvCase"), id(c)))
			rhs := []ast.Expr{call(rw.vs("As"), id(c), id(rv))}
			if len(comm.Lhs) == 2 {
				rhs = append(rhs, id(okv))
			}
			head = append(head, &ast.AssignStmt{Lhs: comm.Lhs, Tok: comm.Tok, Rhs: rhs})
			if comm.Tok == token.DEFINE {
				// the body may not use the variables
				for _, l := range comm.Lhs {
					if !blank(l) {
						head = append(head, &ast.AssignStmt{Lhs: []ast.Expr{id("_")}, Tok: token.ASSIGN, Rhs: []ast.Expr{l}})
					}
				}
			}
		default:
			fatalf("%s: unsupported comm clause %T", rw.fname, comm)
		}
		clauses = append(clauses, &ast.CaseClause{
			List: []ast.Expr{&ast.BasicLit{Kind: token.INT, Value: strconv.Itoa(idx)}},
			Body: append(head, body...),
		})
		idx++
	}
	hd := "false"
	if hasDefault {
		hd = "true"
	} else {
		clauses = append(clauses, &ast.CaseClause{Body: []ast.Stmt{&ast.ExprStmt{X: call(id("panic"), &ast.BasicLit{Kind: token.STRING, Value: strconv.Quote("vsched: bad select index")})}}})
	}
	args := append([]ast.Expr{rw.site(s), id(hd)}, cases...)
	pre = append(pre, define([]ast.Expr{id(iv), id(rv), id(okv)}, call(rw.vs("Select"), args...)))
	pre = append(pre, &ast.AssignStmt{Lhs: []ast.Expr{id("_"), id("_")}, Tok: token.ASSIGN, Rhs: []ast.Expr{id(rv), id(okv)}})
	var sw ast.Stmt = &ast.SwitchStmt{Tag: id(iv), Body: &ast.BlockStmt{List: clauses}}
	if label != nil {
		sw = &ast.LabeledStmt{Label: label, Stmt: sw}
	}
	pre = append(pre, sw)
	return &ast.BlockStmt{List: pre}
}

var _ = sort.Strings
