// Package refcodec is an independent 9P2000 encoder/decoder written from
// intro(5) and stat(5): explicit field-by-field code, no reflection, nothing
// shared with p9p's encoding.go. It works on p9p's exported message structs
// by field *name*, so a reordering of struct fields in p9p does not affect it.
//
// Bodies are encoded without the leading size[4]; Frame adds it.
package refcodec

import (
	"encoding/binary"
	"errors"
	"fmt"
	"time"

	p9p "github.com/frobnitzem/go-p9p"
)

var le = binary.LittleEndian

type enc struct{ b []byte }

func (e *enc) u8(v uint8)   { e.b = append(e.b, v) }
func (e *enc) u16(v uint16) { e.b = le.AppendUint16(e.b, v) }
func (e *enc) u32(v uint32) { e.b = le.AppendUint32(e.b, v) }
func (e *enc) u64(v uint64) { e.b = le.AppendUint64(e.b, v) }
func (e *enc) str(s string) { e.u16(uint16(len(s))); e.b = append(e.b, s...) }
func (e *enc) qid(q p9p.Qid) {
	e.u8(uint8(q.Type))
	e.u32(q.Version)
	e.u64(q.Path)
}
func (e *enc) tm(t time.Time) { e.u32(uint32(t.Unix())) }

// StatBytes is the stat(5) record of d including its own size[2].
func StatBytes(d p9p.Dir) []byte {
	var e enc
	e.u16(0)
	e.u16(d.Type)
	e.u32(d.Dev)
	e.qid(d.Qid)
	e.u32(d.Mode)
	e.tm(d.AccessTime)
	e.tm(d.ModTime)
	e.u64(d.Length)
	e.str(d.Name)
	e.str(d.UID)
	e.str(d.GID)
	e.str(d.MUID)
	le.PutUint16(e.b, uint16(len(e.b)-2))
	return e.b
}

// Representable reports whether every field of the message fits the wire.
func Representable(m p9p.Message) bool {
	s := func(x string) bool { return len(x) <= 0xFFFF }
	d := func(x p9p.Dir) bool {
		if !s(x.Name) || !s(x.UID) || !s(x.GID) || !s(x.MUID) {
			return false
		}
		if 39+8+len(x.Name)+len(x.UID)+len(x.GID)+len(x.MUID) > 0xFFFF-2 {
			return false
		}
		for _, t := range []time.Time{x.AccessTime, x.ModTime} {
			u := t.Unix()
			if u < 0 || u > 0xFFFFFFFF || t.Nanosecond() != 0 {
				return false
			}
		}
		return true
	}
	switch m := m.(type) {
	case p9p.MessageTversion:
		return s(m.Version)
	case p9p.MessageRversion:
		return s(m.Version)
	case p9p.MessageTauth:
		return s(m.Uname) && s(m.Aname)
	case p9p.MessageTattach:
		return s(m.Uname) && s(m.Aname)
	case p9p.MessageRerror:
		return s(m.Ename)
	case p9p.MessageTwalk:
		if len(m.Wnames) > 0xFFFF {
			return false
		}
		for _, n := range m.Wnames {
			if !s(n) {
				return false
			}
		}
	case p9p.MessageRwalk:
		return len(m.Qids) <= 0xFFFF
	case p9p.MessageTcreate:
		return s(m.Name)
	case p9p.MessageRstat:
		return d(m.Stat)
	case p9p.MessageTwstat:
		return d(m.Stat)
	}
	return true
}

// Encode returns type[1] tag[2] body of fc.
func Encode(fc *p9p.Fcall) ([]byte, error) {
	var e enc
	typ, err := typeOf(fc.Message)
	if err != nil {
		return nil, err
	}
	e.u8(typ)
	e.u16(uint16(fc.Tag))
	switch m := fc.Message.(type) {
	case p9p.MessageTversion:
		e.u32(m.MSize)
		e.str(m.Version)
	case p9p.MessageRversion:
		e.u32(m.MSize)
		e.str(m.Version)
	case p9p.MessageTauth:
		e.u32(uint32(m.Afid))
		e.str(m.Uname)
		e.str(m.Aname)
	case p9p.MessageRauth:
		e.qid(m.Qid)
	case p9p.MessageTattach:
		e.u32(uint32(m.Fid))
		e.u32(uint32(m.Afid))
		e.str(m.Uname)
		e.str(m.Aname)
	case p9p.MessageRattach:
		e.qid(m.Qid)
	case p9p.MessageRerror:
		e.str(m.Ename)
	case p9p.MessageTflush:
		e.u16(uint16(m.Oldtag))
	case p9p.MessageRflush:
	case p9p.MessageTwalk:
		e.u32(uint32(m.Fid))
		e.u32(uint32(m.Newfid))
		e.u16(uint16(len(m.Wnames)))
		for _, n := range m.Wnames {
			e.str(n)
		}
	case p9p.MessageRwalk:
		e.u16(uint16(len(m.Qids)))
		for _, q := range m.Qids {
			e.qid(q)
		}
	case p9p.MessageTopen:
		e.u32(uint32(m.Fid))
		e.u8(uint8(m.Mode))
	case p9p.MessageRopen:
		e.qid(m.Qid)
		e.u32(m.IOUnit)
	case p9p.MessageTcreate:
		e.u32(uint32(m.Fid))
		e.str(m.Name)
		e.u32(m.Perm)
		e.u8(uint8(m.Mode))
	case p9p.MessageRcreate:
		e.qid(m.Qid)
		e.u32(m.IOUnit)
	case p9p.MessageTread:
		e.u32(uint32(m.Fid))
		e.u64(m.Offset)
		e.u32(m.Count)
	case p9p.MessageRread:
		e.u32(uint32(len(m.Data)))
		e.b = append(e.b, m.Data...)
	case p9p.MessageTwrite:
		e.u32(uint32(m.Fid))
		e.u64(m.Offset)
		e.u32(uint32(len(m.Data)))
		e.b = append(e.b, m.Data...)
	case p9p.MessageRwrite:
		e.u32(m.Count)
	case p9p.MessageTclunk:
		e.u32(uint32(m.Fid))
	case p9p.MessageRclunk:
	case p9p.MessageTremove:
		e.u32(uint32(m.Fid))
	case p9p.MessageRremove:
	case p9p.MessageTstat:
		e.u32(uint32(m.Fid))
	case p9p.MessageRstat:
		st := StatBytes(m.Stat)
		e.u16(uint16(len(st)))
		e.b = append(e.b, st...)
	case p9p.MessageTwstat:
		e.u32(uint32(m.Fid))
		st := StatBytes(m.Stat)
		e.u16(uint16(len(st)))
		e.b = append(e.b, st...)
	case p9p.MessageRwstat:
	default:
		return nil, fmt.Errorf("refcodec: unknown message %T", fc.Message)
	}
	return e.b, nil
}

// Frame is size[4] followed by the body.
func Frame(body []byte) []byte {
	out := make([]byte, 4, 4+len(body))
	le.PutUint32(out, uint32(len(body)+4))
	return append(out, body...)
}

// EncodeFrame encodes fc as a complete frame.
func EncodeFrame(tag p9p.Tag, m p9p.Message) []byte {
	b, err := Encode(&p9p.Fcall{Tag: tag, Message: m})
	if err != nil {
		panic(err)
	}
	return Frame(b)
}

func typeOf(m p9p.Message) (uint8, error) {
	switch m.(type) {
	case p9p.MessageTversion:
		return 100, nil
	case p9p.MessageRversion:
		return 101, nil
	case p9p.MessageTauth:
		return 102, nil
	case p9p.MessageRauth:
		return 103, nil
	case p9p.MessageTattach:
		return 104, nil
	case p9p.MessageRattach:
		return 105, nil
	case p9p.MessageRerror:
		return 107, nil
	case p9p.MessageTflush:
		return 108, nil
	case p9p.MessageRflush:
		return 109, nil
	case p9p.MessageTwalk:
		return 110, nil
	case p9p.MessageRwalk:
		return 111, nil
	case p9p.MessageTopen:
		return 112, nil
	case p9p.MessageRopen:
		return 113, nil
	case p9p.MessageTcreate:
		return 114, nil
	case p9p.MessageRcreate:
		return 115, nil
	case p9p.MessageTread:
		return 116, nil
	case p9p.MessageRread:
		return 117, nil
	case p9p.MessageTwrite:
		return 118, nil
	case p9p.MessageRwrite:
		return 119, nil
	case p9p.MessageTclunk:
		return 120, nil
	case p9p.MessageRclunk:
		return 121, nil
	case p9p.MessageTremove:
		return 122, nil
	case p9p.MessageRremove:
		return 123, nil
	case p9p.MessageTstat:
		return 124, nil
	case p9p.MessageRstat:
		return 125, nil
	case p9p.MessageTwstat:
		return 126, nil
	case p9p.MessageRwstat:
		return 127, nil
	}
	return 0, fmt.Errorf("refcodec: unknown message %T", m)
}

var ErrShort = errors.New("refcodec: short buffer")

type dec struct {
	b   []byte
	err error
}

func (d *dec) take(n int) []byte {
	if d.err != nil {
		return nil
	}
	if n < 0 || len(d.b) < n {
		d.err = ErrShort
		return nil
	}
	r := d.b[:n]
	d.b = d.b[n:]
	return r
}
func (d *dec) u8() uint8 {
	b := d.take(1)
	if b == nil {
		return 0
	}
	return b[0]
}
func (d *dec) u16() uint16 {
	b := d.take(2)
	if b == nil {
		return 0
	}
	return le.Uint16(b)
}
func (d *dec) u32() uint32 {
	b := d.take(4)
	if b == nil {
		return 0
	}
	return le.Uint32(b)
}
func (d *dec) u64() uint64 {
	b := d.take(8)
	if b == nil {
		return 0
	}
	return le.Uint64(b)
}
func (d *dec) str() string { return string(d.take(int(d.u16()))) }
func (d *dec) qid() p9p.Qid {
	return p9p.Qid{Type: p9p.QType(d.u8()), Version: d.u32(), Path: d.u64()}
}
func (d *dec) tm() time.Time { return time.Unix(int64(d.u32()), 0).UTC() }

// DecodeStat decodes one stat record (with its size[2]) from b and returns
// the rest. strict: the record's size must cover its fields exactly.
func DecodeStat(b []byte) (p9p.Dir, []byte, error) {
	d := &dec{b: b}
	n := int(d.u16())
	body := d.take(n)
	if d.err != nil {
		return p9p.Dir{}, nil, d.err
	}
	s := &dec{b: body}
	var x p9p.Dir
	x.Type = s.u16()
	x.Dev = s.u32()
	x.Qid = s.qid()
	x.Mode = s.u32()
	x.AccessTime = s.tm()
	x.ModTime = s.tm()
	x.Length = s.u64()
	x.Name = s.str()
	x.UID = s.str()
	x.GID = s.str()
	x.MUID = s.str()
	if s.err != nil {
		return p9p.Dir{}, nil, s.err
	}
	if len(s.b) != 0 {
		return p9p.Dir{}, nil, fmt.Errorf("refcodec: %d trailing bytes inside stat", len(s.b))
	}
	return x, d.b, nil
}

// Decode parses type[1] tag[2] body. Trailing reports bytes left over
// after the message (a conforming peer never sends any).
func Decode(b []byte) (fc *p9p.Fcall, trailing int, err error) {
	d := &dec{b: b}
	typ := d.u8()
	tag := p9p.Tag(d.u16())
	if d.err != nil {
		return nil, 0, d.err
	}
	var m p9p.Message
	switch typ {
	case 100:
		m = p9p.MessageTversion{MSize: d.u32(), Version: d.str()}
	case 101:
		m = p9p.MessageRversion{MSize: d.u32(), Version: d.str()}
	case 102:
		m = p9p.MessageTauth{Afid: p9p.Fid(d.u32()), Uname: d.str(), Aname: d.str()}
	case 103:
		m = p9p.MessageRauth{Qid: d.qid()}
	case 104:
		m = p9p.MessageTattach{Fid: p9p.Fid(d.u32()), Afid: p9p.Fid(d.u32()), Uname: d.str(), Aname: d.str()}
	case 105:
		m = p9p.MessageRattach{Qid: d.qid()}
	case 107:
		m = p9p.MessageRerror{Ename: d.str()}
	case 108:
		m = p9p.MessageTflush{Oldtag: p9p.Tag(d.u16())}
	case 109:
		m = p9p.MessageRflush{}
	case 110:
		w := p9p.MessageTwalk{Fid: p9p.Fid(d.u32()), Newfid: p9p.Fid(d.u32())}
		n := int(d.u16())
		for i := 0; i < n && d.err == nil; i++ {
			w.Wnames = append(w.Wnames, d.str())
		}
		m = w
	case 111:
		var w p9p.MessageRwalk
		n := int(d.u16())
		for i := 0; i < n && d.err == nil; i++ {
			w.Qids = append(w.Qids, d.qid())
		}
		m = w
	case 112:
		m = p9p.MessageTopen{Fid: p9p.Fid(d.u32()), Mode: p9p.Flag(d.u8())}
	case 113:
		m = p9p.MessageRopen{Qid: d.qid(), IOUnit: d.u32()}
	case 114:
		m = p9p.MessageTcreate{Fid: p9p.Fid(d.u32()), Name: d.str(), Perm: d.u32(), Mode: p9p.Flag(d.u8())}
	case 115:
		m = p9p.MessageRcreate{Qid: d.qid(), IOUnit: d.u32()}
	case 116:
		m = p9p.MessageTread{Fid: p9p.Fid(d.u32()), Offset: d.u64(), Count: d.u32()}
	case 117:
		n := d.u32()
		if uint64(n) > uint64(len(d.b)) {
			d.err = ErrShort
		}
		m = p9p.MessageRread{Data: append([]byte(nil), d.take(int(n))...)}
	case 118:
		w := p9p.MessageTwrite{Fid: p9p.Fid(d.u32()), Offset: d.u64()}
		n := d.u32()
		if uint64(n) > uint64(len(d.b)) {
			d.err = ErrShort
		}
		w.Data = append([]byte(nil), d.take(int(n))...)
		m = w
	case 119:
		m = p9p.MessageRwrite{Count: d.u32()}
	case 120:
		m = p9p.MessageTclunk{Fid: p9p.Fid(d.u32())}
	case 121:
		m = p9p.MessageRclunk{}
	case 122:
		m = p9p.MessageTremove{Fid: p9p.Fid(d.u32())}
	case 123:
		m = p9p.MessageRremove{}
	case 124:
		m = p9p.MessageTstat{Fid: p9p.Fid(d.u32())}
	case 125, 126:
		var fid p9p.Fid
		if typ == 126 {
			fid = p9p.Fid(d.u32())
		}
		n := int(d.u16())
		st := d.take(n)
		if d.err != nil {
			return nil, 0, d.err
		}
		dir, rest, err := DecodeStat(st)
		if err != nil {
			return nil, 0, err
		}
		if len(rest) != 0 {
			return nil, 0, fmt.Errorf("refcodec: outer stat size %d does not match inner record", n)
		}
		if typ == 125 {
			m = p9p.MessageRstat{Stat: dir}
		} else {
			m = p9p.MessageTwstat{Fid: fid, Stat: dir}
		}
	case 127:
		m = p9p.MessageRwstat{}
	default:
		return nil, 0, fmt.Errorf("refcodec: illegal message type %d", typ)
	}
	if d.err != nil {
		return nil, 0, d.err
	}
	return &p9p.Fcall{Type: p9p.FcallType(typ), Tag: tag, Message: m}, len(d.b), nil
}
