// Package vsync replaces package sync in the instrumented copy of the code
// under test. Every type wraps the real primitive (so the race detector
// still sees the real synchronisation) and adds a scheduling point; with the
// scheduler inactive it behaves exactly like package sync.
package vsync

import (
	"errors"
	"sync"
	"unsafe"

	"github.com/frobnitzem/go-p9p/zzverif/vsched"
)

type Locker = sync.Locker

// SeqMode is set by sequential (single-goroutine) harnesses: locking a mutex
// that is already held can then never succeed, so it panics with
// ErrSelfDeadlock instead of hanging.
var SeqMode bool

type selfDeadlock struct{}

//go:norace
func (selfDeadlock) Error() string {
	return "vsync: lock of a mutex that is already held (the operation would never return)"
}

// ErrSelfDeadlock is the panic value raised in SeqMode.
var ErrSelfDeadlock error = selfDeadlock{}

// ErrUnlockUnlocked is the panic value raised where the runtime would abort
// the process with "fatal error: sync: unlock of unlocked mutex".
var ErrUnlockUnlocked = errors.New("sync: unlock of unlocked mutex (a fatal error that aborts the process)")

type Mutex struct {
	mu sync.Mutex
	st vsched.MutexState
}

//go:norace
func (m *Mutex) Lock() {
	if vsched.Active() {
		vsched.Lock(&m.st, false)
	} else if SeqMode && m.st.Held {
		panic(ErrSelfDeadlock)
	}
	m.mu.Lock()
	if !vsched.Active() {
		m.st.Held = true
	}
}

//go:norace
func (m *Mutex) Unlock() {
	if !m.st.Held {
		// the runtime would abort the whole process ("fatal error: sync:
		// unlock of unlocked mutex"); a panic lets the harness report it
		panic(ErrUnlockUnlocked)
	}
	m.st.Held = false
	m.mu.Unlock()
}

//go:norace
func (m *Mutex) TryLock() bool {
	if vsched.Active() {
		vsched.YieldPC(uintptr(unsafe.Pointer(&m.st)))
	}
	if m.mu.TryLock() {
		m.st.Held = true
		return true
	}
	return false
}

type RWMutex struct {
	mu sync.RWMutex
	st vsched.MutexState
}

//go:norace
func (m *RWMutex) Lock() {
	if vsched.Active() {
		vsched.Lock(&m.st, false)
	}
	m.mu.Lock()
	if !vsched.Active() {
		m.st.Held = true
	}
}

//go:norace
func (m *RWMutex) Unlock() {
	if !m.st.Held {
		panic(ErrUnlockUnlocked)
	}
	m.st.Held = false
	m.mu.Unlock()
}

//go:norace
func (m *RWMutex) RLock() {
	if vsched.Active() {
		vsched.Lock(&m.st, true)
	}
	m.mu.RLock()
	if !vsched.Active() {
		m.st.Readers++
	}
}

//go:norace
func (m *RWMutex) RUnlock() {
	if m.st.Readers <= 0 && (vsched.Active() || SeqMode) { // the reader count is exact only there
		panic(ErrUnlockUnlocked)
	}
	m.st.Readers--
	m.mu.RUnlock()
}

//go:norace
func (m *RWMutex) TryLock() bool {
	if vsched.Active() {
		vsched.YieldPC(uintptr(unsafe.Pointer(&m.st)))
	}
	if m.mu.TryLock() {
		m.st.Held = true
		return true
	}
	return false
}

//go:norace
func (m *RWMutex) TryRLock() bool {
	if vsched.Active() {
		vsched.YieldPC(uintptr(unsafe.Pointer(&m.st)))
	}
	if m.mu.TryRLock() {
		m.st.Readers++
		return true
	}
	return false
}

//go:norace
func (m *RWMutex) RLocker() Locker { return m.mu.RLocker() }

type Once struct {
	once sync.Once
	st   vsched.OnceState
}

//go:norace
func (o *Once) Do(f func()) {
	if !vsched.Active() {
		o.once.Do(f)
		return
	}
	vsched.OnceEnter(&o.st)
	defer o.leave()
	o.once.Do(f)
}

//go:norace
func (o *Once) leave() { o.st.Running = false }

// Map is sync.Map with a scheduling point before every operation and a
// deterministic Range order.
type Map struct {
	m sync.Map
}

//go:norace
func (m *Map) pt() {
	if vsched.Active() {
		vsched.YieldPC(uintptr(unsafe.Pointer(m)))
	}
}

//go:norace
func (m *Map) Load(key any) (any, bool) { m.pt(); return m.m.Load(key) }

//go:norace
func (m *Map) Store(key, value any) { m.pt(); m.m.Store(key, value) }

//go:norace
func (m *Map) Delete(key any) { m.pt(); m.m.Delete(key) }

//go:norace
func (m *Map) LoadAndDelete(key any) (any, bool) { m.pt(); return m.m.LoadAndDelete(key) }

//go:norace
func (m *Map) LoadOrStore(key, value any) (any, bool) {
	m.pt()
	return m.m.LoadOrStore(key, value)
}

//go:norace
func (m *Map) Swap(key, value any) (any, bool) { m.pt(); return m.m.Swap(key, value) }

//go:norace
func (m *Map) CompareAndSwap(key, old, new any) bool {
	m.pt()
	return m.m.CompareAndSwap(key, old, new)
}

//go:norace
func (m *Map) CompareAndDelete(key, old any) bool { m.pt(); return m.m.CompareAndDelete(key, old) }

//go:norace
func (m *Map) Range(f func(key, value any) bool) {
	m.pt()
	var keys []any
	m.m.Range(func(k, v any) bool { keys = append(keys, k); return true })
	vsched.SortAny(keys)
	for _, k := range keys {
		v, ok := m.m.Load(k)
		if !ok {
			continue
		}
		if !f(k, v) {
			return
		}
	}
}

type WaitGroup struct {
	wg sync.WaitGroup
	n  int
}

//go:norace
func (w *WaitGroup) Add(d int) { w.n += d; w.wg.Add(d) }

//go:norace
func (w *WaitGroup) Done() { w.n--; w.wg.Done() }

//go:norace
func (w *WaitGroup) Wait() {
	if vsched.Active() {
		vsched.WaitFor("WaitGroup.Wait", uintptr(unsafe.Pointer(w)), func() bool { return w.n <= 0 })
	}
	w.wg.Wait()
}

// Pool is sync.Pool; under the scheduler it is a deterministic LIFO free
// list (the real pool's per-P caches and GC interaction would make replays
// diverge), which is one of the behaviours the real pool may show.
type Pool struct {
	New   func() any
	real  sync.Pool
	mu    sync.Mutex
	items []any
}

//go:norace
func (p *Pool) Get() any {
	if !vsched.Active() {
		if v := p.real.Get(); v != nil {
			return v
		}
		if p.New != nil {
			return p.New()
		}
		return nil
	}
	vsched.YieldPC(uintptr(unsafe.Pointer(p)))
	p.mu.Lock()
	var v any
	if n := len(p.items); n > 0 {
		v = p.items[n-1]
		p.items = p.items[:n-1]
	}
	p.mu.Unlock()
	if v == nil && p.New != nil {
		v = p.New()
	}
	return v
}

//go:norace
func (p *Pool) Put(x any) {
	if !vsched.Active() {
		p.real.Put(x)
		return
	}
	vsched.YieldPC(uintptr(unsafe.Pointer(p)))
	p.mu.Lock()
	p.items = append(p.items, x)
	p.mu.Unlock()
}

type Cond = sync.Cond

func NewCond(l Locker) *Cond { return sync.NewCond(l) }
