// Package vconn is an in-memory net.Conn pair that lives under vsched: a
// per-direction byte queue whose blocking is decided by the scheduler, with
// injectable faults. Deadlines are ignored (time is not a source of
// nondeterminism inside an execution).
//
// Each direction of a pipe is guarded by its own real mutex. Under the cooperative
// scheduler it is never contended; it exists so that the race detector sees
// the happens-before edges a real connection provides (bytes written are
// visible to the reader) and none of the harness's own accesses as races.
package vconn

import (
	"encoding/binary"
	"errors"
	"io"
	"net"
	"sync"
	"time"
	"unsafe"

	"github.com/frobnitzem/go-p9p/zzverif/vsched"
)

var (
	ErrInjectedRead  = errors.New("vconn: injected read error")
	ErrInjectedWrite = errors.New("vconn: injected write error")
)

// dir is one direction of the pipe.
type dir struct {
	mu      sync.Mutex // guards this direction's queue and flags (and the per-end fields of the end that writes / reads it)
	buf     []byte
	sync    bool // writer returns only once its bytes were consumed (net.Pipe)
	wclosed bool // writing end closed: reader sees EOF after draining
	rclosed bool // reading end closed: writer fails
	readErr error
	frames  [][]byte
}

func (d *dir) id() uintptr { return uintptr(unsafe.Pointer(d)) }

// Conn is one end of the pipe.
type Conn struct {
	Name string
	r, w *dir
	// FaultyWrites / FaultyReads turn every Write / Read into a choice
	// point {succeed, fail} costing one deviation for the failure.
	FaultyWrites bool
	FaultyReads  bool
	// Chunk limits how many bytes a Read may return (0: all available).
	Chunk    int
	writeErr error
	closed   bool
	// ExpiryFaults adds a third answer to a faulty Write: "the deadline set
	// for this write has passed" - the write fails with a timeout error, and
	// so does every later write whose deadline is not later than that one.
	ExpiryFaults bool
	// TempReadFaults adds a third answer to a faulty Read: a temporary
	// (non-timeout) error with no bytes, after which reading goes on.
	TempReadFaults bool
	wdeadline      time.Time
	wexpired       time.Time
	// With ExpiryFaults, a frame that starts under a write deadline which was
	// not renewed since the previous frame started may find it expired (any
	// amount of time can have passed in between): a fourth answer.
	// StaleExpiry counts how often that answer was given.
	StaleExpiry int
	wdlGen      int    // SetWriteDeadline calls so far
	wdlGenFrame int    // wdlGen when the current / last frame started
	frames9p    int    // frames started so far
	partial     []byte // bytes of the frame in progress
}

// tempErr is a transient network error that is not a timeout.
type tempErr struct{}

func (tempErr) Error() string   { return "vconn: temporary failure" }
func (tempErr) Timeout() bool   { return false }
func (tempErr) Temporary() bool { return true }

// timeoutErr is what a net.Conn returns when a deadline has passed.
type timeoutErr struct{}

func (timeoutErr) Error() string   { return "vconn: i/o timeout" }
func (timeoutErr) Timeout() bool   { return true }
func (timeoutErr) Temporary() bool { return true }

// Pipe returns two connected ends. With sync, a Write returns only after
// the peer has consumed the bytes.
func Pipe(sync bool) (*Conn, *Conn) { return PipeDirs(sync, sync) }

// PipeDirs is Pipe with the blocking behaviour chosen per direction
// (A to B, B to A).
func PipeDirs(syncAB, syncBA bool) (*Conn, *Conn) {
	ab, ba := &dir{sync: syncAB}, &dir{sync: syncBA}
	return &Conn{Name: "A", r: ba, w: ab}, &Conn{Name: "B", r: ab, w: ba}
}

func frameLen(b []byte) (int, bool) {
	if len(b) < 4 {
		return 0, false
	}
	n := int(binary.LittleEndian.Uint32(b))
	return n, n >= 4 && len(b) >= n
}

func (c *Conn) Read(p []byte) (int, error) {
	d := c.r
	d.mu.Lock()
	faulty := c.FaultyReads
	d.mu.Unlock()
	if faulty {
		n := 2
		if c.TempReadFaults {
			n = 3
		}
		switch vsched.Choose("conn.Read?"+c.Name, n, true) {
		case 1:
			d.mu.Lock()
			d.readErr = ErrInjectedRead
			d.mu.Unlock()
		case 2:
			// a transient condition: this Read reports a temporary error
			// (not a timeout) and no bytes; the connection is fine
			return 0, tempErr{}
		}
	}
	vsched.WaitFor("conn.Read:"+c.Name, d.id(), c.condReadable)
	d.mu.Lock()
	defer d.mu.Unlock()
	if d.rclosed {
		return 0, io.ErrClosedPipe
	}
	if d.readErr != nil {
		return 0, d.readErr
	}
	if len(d.buf) > 0 {
		n := len(d.buf)
		if n > len(p) {
			n = len(p)
		}
		if c.Chunk > 0 && n > c.Chunk {
			n = c.Chunk
		}
		copy(p, d.buf[:n])
		d.buf = d.buf[n:]
		return n, nil
	}
	return 0, io.EOF
}

func (c *Conn) Write(p []byte) (int, error) {
	d := c.w
	fail := 0
	d.mu.Lock()
	faulty := c.FaultyWrites
	d.mu.Unlock()
	d.mu.Lock()
	frameStart := len(c.partial) == 0
	stale := faulty && c.ExpiryFaults && frameStart && c.frames9p > 0 && !c.wdeadline.IsZero() && c.wdlGen == c.wdlGenFrame
	if frameStart {
		c.wdlGenFrame = c.wdlGen
		c.frames9p++
	}
	c.partial = append(c.partial, p...)
	for {
		n, full := frameLen(c.partial)
		if !full {
			break
		}
		c.partial = c.partial[n:]
	}
	if len(c.partial) >= 4 {
		if n := int(binary.LittleEndian.Uint32(c.partial)); n < 4 {
			c.partial = nil // not 9P framing: no frame tracking
		}
	}
	d.mu.Unlock()
	if faulty {
		n := 2
		if c.ExpiryFaults {
			n = 3
		}
		if stale {
			n = 4
		}
		fail = vsched.Choose("conn.Write?"+c.Name, n, true)
		if fail == 3 {
			d.mu.Lock()
			c.StaleExpiry++
			d.mu.Unlock()
			return 0, timeoutErr{}
		}
	} else {
		vsched.Yield("conn.Write:"+c.Name, d.id())
	}
	d.mu.Lock()
	if fail == 1 {
		c.writeErr = ErrInjectedWrite
	}
	if fail == 2 {
		c.wexpired = c.wdeadline
		if c.wexpired.IsZero() {
			c.wexpired = time.Unix(1, 0)
		}
	}
	if !c.wexpired.IsZero() && !c.wdeadline.After(c.wexpired) && !(c.closed || d.rclosed) {
		d.mu.Unlock()
		return 0, timeoutErr{}
	}
	if c.closed || d.rclosed {
		d.mu.Unlock()
		return 0, io.ErrClosedPipe
	}
	if c.writeErr != nil {
		err := c.writeErr
		d.mu.Unlock()
		return 0, err
	}
	d.buf = append(d.buf, p...)
	d.frames = append(d.frames, append([]byte(nil), p...))
	sync := d.sync
	d.mu.Unlock()
	if sync {
		vsched.WaitFor("conn.WriteDrain:"+c.Name, d.id(), c.condDrained)
		d.mu.Lock()
		defer d.mu.Unlock()
		if len(d.buf) > 0 {
			return len(p) - len(d.buf), io.ErrClosedPipe
		}
	}
	return len(p), nil
}

// Close closes this end: the peer reads EOF (after draining) and its writes fail.
func (c *Conn) Close() error {
	vsched.Yield2("conn.Close:"+c.Name, c.w.id(), c.r.id())
	c.CloseNow()
	return nil
}

// CloseNow closes without a scheduling point (for harness code that has
// just passed one).
func (c *Conn) CloseNow() {
	c.w.mu.Lock()
	c.closed = true
	c.w.wclosed = true
	c.w.mu.Unlock()
	c.r.mu.Lock()
	c.r.rclosed = true
	c.r.mu.Unlock()
}

// SetFaulty switches fault choice points on or off.
func (c *Conn) SetFaulty(reads, writes bool) {
	c.r.mu.Lock()
	c.FaultyReads = reads
	c.r.mu.Unlock()
	c.w.mu.Lock()
	c.FaultyWrites = writes
	c.w.mu.Unlock()
}

// Faulted reports whether an injected read or write error has struck this end.
func (c *Conn) Faulted() bool {
	c.w.mu.Lock()
	we := c.writeErr != nil
	c.w.mu.Unlock()
	c.r.mu.Lock()
	defer c.r.mu.Unlock()
	return we || c.r.readErr != nil
}

// FailReads makes every later Read of this end fail with err.
func (c *Conn) FailReads(err error) { c.r.mu.Lock(); c.r.readErr = err; c.r.mu.Unlock() }

// FailWrites makes every later Write of this end fail with err.
func (c *Conn) FailWrites(err error) { c.w.mu.Lock(); c.writeErr = err; c.w.mu.Unlock() }

// Written returns every Write call's bytes on this end, in order.
func (c *Conn) Written() [][]byte { c.w.mu.Lock(); defer c.w.mu.Unlock(); return c.w.frames }

// ReadFrame blocks until a whole 9P frame (size[4] + body) is available and
// pops it atomically. It returns io.EOF when the peer closed at a frame
// boundary and io.ErrUnexpectedEOF inside a frame.
func (c *Conn) ReadFrame() ([]byte, error) {
	f, err := c.ReadFrameOr(nil)
	if f == nil && err == nil {
		err = io.ErrUnexpectedEOF
	}
	return f, err
}

// FrameReady reports whether a complete frame can be read without blocking.
func (c *Conn) FrameReady() bool {
	c.r.mu.Lock()
	defer c.r.mu.Unlock()
	_, ok := frameLen(c.r.buf)
	return ok
}

// ReadObj is the identity of this end's receive queue (for Yield).
func (c *Conn) ReadObj() uintptr { return c.r.id() }

// ReadFrameOr is ReadFrame that also returns (nil, nil) once stop() holds
// and no complete frame is available. stop is evaluated by the scheduler.
func (c *Conn) ReadFrameOr(stop func() bool) ([]byte, error) {
	d := c.r
	w := &frameWait{c: c, stop: stop}
	vsched.WaitFor("conn.ReadFrame:"+c.Name, d.id(), w.cond)
	d.mu.Lock()
	defer d.mu.Unlock()
	if n, full := frameLen(d.buf); full {
		f := append([]byte(nil), d.buf[:n]...)
		d.buf = d.buf[n:]
		return f, nil
	}
	if d.rclosed {
		return nil, io.ErrClosedPipe
	}
	if d.wclosed {
		if len(d.buf) == 0 {
			return nil, io.EOF
		}
		return nil, io.ErrUnexpectedEOF
	}
	return nil, nil
}

// Conditions are evaluated by the scheduler goroutine while every task is
// parked. They are //go:norace and take no lock: the scheduler must neither
// be reported against the tasks nor pass happens-before edges between them
// (unlocking a real mutex would publish everything it has seen).

//go:norace
func (c *Conn) condReadable() bool {
	d := c.r
	return len(d.buf) > 0 || d.wclosed || d.rclosed || d.readErr != nil
}

//go:norace
func (c *Conn) condDrained() bool { return len(c.w.buf) == 0 || c.w.rclosed || c.closed } // closing one's own end unblocks one's writes, as on a net.Conn

// FrameReadyNR is FrameReady for use inside scheduler-evaluated conditions.
//
//go:norace
func (c *Conn) FrameReadyNR() bool {
	b := c.r.buf
	if len(b) < 4 {
		return false
	}
	n := int(b[0]) | int(b[1])<<8 | int(b[2])<<16 | int(b[3])<<24
	return n >= 4 && len(b) >= n
}

type frameWait struct {
	c    *Conn
	stop func() bool
}

//go:norace
func (w *frameWait) cond() bool {
	d := w.c.r
	return w.c.FrameReadyNR() || d.wclosed || d.rclosed || (w.stop != nil && w.stop())
}

// TryFrames pops all complete frames currently readable without blocking
// and without a scheduling point (for oracles at quiescence).
func (c *Conn) TryFrames() [][]byte {
	d := c.r
	d.mu.Lock()
	defer d.mu.Unlock()
	var out [][]byte
	for {
		n, full := frameLen(d.buf)
		if !full {
			break
		}
		out = append(out, append([]byte(nil), d.buf[:n]...))
		d.buf = d.buf[n:]
	}
	return out
}

type addr string

func (a addr) Network() string { return "vconn" }
func (a addr) String() string  { return string(a) }

func (c *Conn) LocalAddr() net.Addr               { return addr(c.Name) }
func (c *Conn) RemoteAddr() net.Addr              { return addr("peer-of-" + c.Name) }
func (c *Conn) SetDeadline(t time.Time) error     { return nil }
func (c *Conn) SetReadDeadline(t time.Time) error { return nil }
func (c *Conn) SetWriteDeadline(t time.Time) error {
	c.w.mu.Lock()
	c.wdeadline = t
	c.wdlGen++
	c.w.mu.Unlock()
	return nil
}

var _ net.Conn = (*Conn)(nil)
