// Package vsched is a controlled (cooperative) scheduler for the goroutines
// of the code under test. Instrumented code calls into it before every
// synchronisation operation; exactly one task runs at a time and a single
// scheduler loop decides which enabled operation executes next.
//
// Real channels, real mutexes and the real context package stay in place:
// the scheduler only decides *when* an operation may execute, after having
// established from shadow state that it cannot block.
package vsched

import (
	"context"
	"fmt"
	"os"
	"reflect"
	"runtime"
	"runtime/debug"
	"strings"
	"sync/atomic"
	"time"
)

type OpKind int

const (
	OpYield  OpKind = iota // always enabled, one alternative
	OpChoose               // always enabled, N alternatives (environment answer); alt 0 is the default
	OpLock                 // enabled iff mutex free
	OpOnce                 // enabled iff nobody is inside the Once
	OpChan                 // send / recv / select over real channels
	OpWait                 // enabled iff Cond() (environment objects such as vconn)
	opCont                 // internal: continuation after a rendezvous
)

// Case is one communication of a select (or the single one of a plain send/recv).
type Case struct {
	Send bool
	Ch   reflect.Value // zero Value or nil channel: never ready
	Val  reflect.Value // value to send
}

//go:norace
func (c *Case) id() uintptr {
	if !c.Ch.IsValid() || c.Ch.IsNil() {
		return 0
	}
	return c.Ch.Pointer()
}

// MutexState is the scheduler's shadow of a mutex.
type MutexState struct {
	Held    bool
	Readers int
	Owner   int
}

// OnceState is the scheduler's shadow of a sync.Once.
type OnceState struct {
	Running bool
	Done    bool
}

type Op struct {
	Kind       OpKind
	Site       string
	PC         uintptr
	N          int  // OpChoose
	DevCost    bool // OpChoose: each alternative > 0 costs one deviation
	Mu         *MutexState
	RLock      bool
	Once       *OnceState
	Cases      []Case
	HasDefault bool
	Cond       func() bool
	Obj        uintptr       // identity of the object touched (for happens-before hashing)
	Obj2       uintptr       // second object touched, if any
	CloseCh    reflect.Value // channel this operation is about to close
	siteHash   uint64
}

//go:norace
func (o *Op) SiteString() string {
	if o == nil {
		return ""
	}
	if o.Site != "" {
		return o.Site
	}
	if o.PC != 0 {
		fr, _ := runtime.CallersFrames([]uintptr{o.PC}).Next()
		f := fr.File
		if i := strings.LastIndex(f, "/"); i >= 0 {
			f = f[i+1:]
		}
		return fmt.Sprintf("%s:%d", f, fr.Line)
	}
	return "?"
}

//go:norace
func (o *Op) String() string {
	if o == nil {
		return "<none>"
	}
	k := [...]string{"yield", "choose", "lock", "once", "chan", "wait", "cont"}[o.Kind]
	return k + "@" + o.SiteString()
}

const (
	stParked = iota
	stRunning
	stDone
)

type grant struct {
	alt  int
	kill bool
	pair bool
}

type Task struct {
	ID    int
	Name  string
	op    *Op
	ho    handoffTask
	state int
	hb    uint64 // happens-before history hash of this task
}

// PanicInfo records a panic that escaped a task.
type PanicInfo struct {
	Task  string
	Value string
	Stack string
}

// Move is one enabled alternative at a decision point.
type Move struct {
	Task  int
	Alt   int
	Peer  int // partner task of a rendezvous, -1 otherwise
	PAlt  int
	PCost int    // preemption cost
	DCost int    // deviation cost
	Next  uint64 // happens-before fingerprint of the state right after this move
	t, p  *Task
}

//go:norace
func (m *Move) String() string {
	if m.p != nil {
		return fmt.Sprintf("%s#%d<->%s#%d %s", m.t.Name, m.Alt, m.p.Name, m.PAlt, m.t.op.String())
	}
	return fmt.Sprintf("%s#%d %s", m.t.Name, m.Alt, m.t.op.String())
}

// Point is a decision point with more than one enabled move.
type Point struct {
	Moves  []Move
	Chosen int
	Descs  []string // filled only when tracing
}

// Blocked describes a task that was still parked when nothing was enabled.
type Blocked struct {
	Task string
	Op   string
}

// Exec is the observable summary of one execution.
type Exec struct {
	Points   []Point
	Choices  []int
	Steps    int
	Blocked  []Blocked // non-empty: the execution ended with parked tasks
	Panics   []PanicInfo
	Horizon  bool // step cap reached
	Diverged string
	Log      []string
	Trace    []string // every executed move, when tracing
	Leaked   int
}

// Chooser picks a move index at a decision point (len(moves) > 1).
// state is the happens-before fingerprint of the execution so far.
type Chooser func(idx int, moves []Move, state uint64) int

type Sched struct {
	tasks    []*Task
	cur      *Task
	last     *Task
	ho       handoffSched
	choose   Chooser
	maxSteps int
	killing  bool
	late     map[*Task]bool       // tasks whose final event arrived while another task was being waited for
	timers   []context.CancelFunc // timeout contexts of the code under test that are still armed (see FireTimers)
	exec     *Exec
	closedCh map[uintptr]reflect.Value
	trace    bool
	delay    bool
	objHB    map[uintptr]uint64
	hbsum    uint64
}

// S is the active scheduler (nil: shims are pass-through).
var S *Sched

var progress atomic.Int64
var watchdogOn atomic.Bool

// Active reports whether operations must go through the scheduler.
//
//go:norace
func Active() bool { return S != nil && !S.killing }

//go:norace
func startWatchdog() {
	if watchdogOn.Swap(true) {
		return
	}
	go func() {
		lastv, since := int64(-1), time.Now()
		for {
			time.Sleep(2 * time.Second)
			v := progress.Load()
			if S == nil || v != lastv {
				lastv, since = v, time.Now()
				continue
			}
			if time.Since(since) > 90*time.Second {
				buf := make([]byte, 1<<20)
				n := runtime.Stack(buf, true)
				fmt.Fprintf(os.Stderr, "ENGINE-ERROR watchdog: no scheduling point reached for 90s\n%s\n", buf[:n])
				os.Exit(2)
			}
		}
	}()
}

// Config of one execution.
type Config struct {
	// DelayCost selects delay bounding (Emmi, Qadeer, Rakamaric): tasks are
	// taken round-robin starting with the one that ran last, and choosing the
	// k-th enabled task in that order costs k. Otherwise preemption bounding
	// (CHESS): leaving a still-enabled task costs 1, everything else is free.
	DelayCost bool
	MaxSteps  int
	Choose    Chooser
	Trace     bool
}

// Run executes root as task 0 under the scheduler until every task has
// finished or nothing is enabled.
//
//go:norace
func Run(cfg Config, root func()) *Exec {
	if S != nil {
		panic("vsched: nested Run")
	}
	startWatchdog()
	if cfg.MaxSteps == 0 {
		cfg.MaxSteps = 20000
	}
	s := &Sched{
		choose:   cfg.Choose,
		maxSteps: cfg.MaxSteps,
		exec:     &Exec{Log: make([]string, 0, 256)},
		tasks:    make([]*Task, 0, 64),
		closedCh: map[uintptr]reflect.Value{},
		trace:    cfg.Trace,
		delay:    cfg.DelayCost,
		objHB:    map[uintptr]uint64{},
	}
	s.initHandoff()
	S = s
	s.spawn("root", root)
	for {
		moves := s.enabled()
		if len(moves) == 0 {
			break
		}
		if s.exec.Steps >= s.maxSteps {
			s.exec.Horizon = true
			break
		}
		idx := 0
		if len(moves) > 1 {
			for i := range moves {
				d := s.hbCompute(&moves[i])
				moves[i].Next = d.fingerprint()
			}
			if s.choose != nil {
				idx = s.choose(len(s.exec.Points), moves, s.fingerprint())
			}
			if idx < 0 || idx >= len(moves) {
				s.exec.Diverged = fmt.Sprintf("choice %d out of range (%d moves) at point %d", idx, len(moves), len(s.exec.Points))
				break
			}
			pt := Point{Moves: moves, Chosen: idx}
			if s.trace {
				for i := range moves {
					pt.Descs = append(pt.Descs, moves[i].String())
				}
			}
			s.exec.Points = append(s.exec.Points, pt)
			s.exec.Choices = append(s.exec.Choices, idx)
		}
		s.exec.Steps++
		progress.Add(1)
		if s.trace {
			s.exec.Trace = append(s.exec.Trace, moves[idx].String())
		}
		s.execute(&moves[idx])
	}
	for _, t := range s.tasks {
		if t.state != stDone {
			s.exec.Blocked = append(s.exec.Blocked, Blocked{Task: t.Name, Op: t.op.String()})
		}
	}
	// Unwind the parked tasks one at a time (their deferred calls run with
	// the shims inert). A task whose deferred code blocks on a real lock that
	// a task killed later still holds (a sync.Once in progress, a mutex) is a
	// straggler: it finishes once that task has been unwound, and is waited
	// for again at the end; only what is still blocked then is leaked.
	s.killing = true
	var stragglers []*Task
	for _, t := range s.tasks {
		if t.state == stDone {
			continue
		}
		if !t.sendKill() {
			s.exec.Leaked++
			continue
		}
		if !s.waitEventOf(t, 2*time.Second) {
			stragglers = append(stragglers, t)
		}
	}
	for _, t := range stragglers {
		if !s.waitEventOf(t, 2*time.Second) {
			s.exec.Leaked++
		}
	}
	for _, t := range s.tasks {
		t.acquireDone()
	}
	S = nil
	return s.exec
}

//go:norace
func (s *Sched) spawn(name string, fn func()) *Task {
	t := &Task{ID: len(s.tasks), state: stParked}
	t.initHandoff()
	t.Name = fmt.Sprintf("t%d", t.ID)
	if name != "" {
		t.Name += ":" + name
	}
	t.hb = mix(0x9E3779B97F4A7C15, uint64(t.ID)+1)
	if s.cur != nil {
		// creation happens-after the creator's history
		t.hb = mix(t.hb, s.cur.hb)
	}
	s.hbsum += t.hb
	t.op = &Op{Kind: OpYield, Site: "start"}
	s.tasks = append(s.tasks, t)
	go func() {
		g := t.waitGrant()
		if g.kill {
			t.state = stDone
			t.publishDone()
			s.postEvent(t)
			return
		}
		defer func() {
			if r := recover(); r != nil {
				s.exec.Panics = append(s.exec.Panics, PanicInfo{Task: t.Name, Value: fmt.Sprint(r), Stack: trimStack(string(debug.Stack()))})
			}
			t.state = stDone
			t.op = nil
			t.publishDone()
			s.postEvent(t)
		}()
		fn()
	}()
	return t
}

//go:norace
func trimStack(st string) string {
	lines := strings.Split(st, "\n")
	var out []string
	for i := 0; i < len(lines); i++ {
		l := lines[i]
		if strings.Contains(l, "runtime/debug") || strings.Contains(l, "zzverif/vsched") || strings.HasPrefix(l, "panic(") || strings.Contains(l, "runtime/panic.go") {
			continue
		}
		out = append(out, l)
		if len(out) > 30 {
			break
		}
	}
	return strings.Join(out, "\n")
}

// park posts op and blocks until the scheduler grants one of its
// alternatives.
//
//go:norace
func (s *Sched) park(op *Op) (grant, *Task) {
	t := s.cur
	t.op = op
	t.state = stParked
	s.postEvent(t)
	g := t.waitGrant()
	if g.kill {
		runtime.Goexit()
	}
	return g, t
}

var contOp = &Op{Kind: opCont, Site: "cont"}

// parkCont is called by both tasks of a rendezvous after their real
// channel operation, so that they continue one at a time.
//
//go:norace
func (s *Sched) parkCont(t *Task) {
	t.op = contOp
	t.state = stParked
	s.postEvent(t)
	g := t.waitGrant()
	if g.kill {
		runtime.Goexit()
	}
}

//go:norace
func (s *Sched) resume(t *Task, g grant) {
	s.cur = t
	t.state = stRunning
	t.sendGrant(g)
	s.waitEvent()
}

//go:norace
func mix(h, v uint64) uint64 {
	h ^= v + 0x9E3779B97F4A7C15 + (h << 6) + (h >> 2)
	h *= 0xff51afd7ed558ccd
	h ^= h >> 33
	return h
}

//go:norace
func strhash(s string) uint64 {
	h := uint64(14695981039346656037)
	for i := 0; i < len(s); i++ {
		h ^= uint64(s[i])
		h *= 1099511628211
	}
	return h
}

// fingerprint identifies the Mazurkiewicz trace of the execution so far:
// the multiset of per-task and per-object happens-before histories.
//
//go:norace
func (s *Sched) fingerprint() uint64 {
	l := uint64(0)
	if s.last != nil {
		l = uint64(s.last.ID) + 1
	}
	return mix(s.hbsum, l)
}

// objID returns the identity of the object an operation alternative touches.
//
//go:norace
func (o *Op) objID(alt int) uintptr {
	switch o.Kind {
	case OpLock:
		return uintptr(reflect.ValueOf(o.Mu).Pointer())
	case OpOnce:
		return uintptr(reflect.ValueOf(o.Once).Pointer())
	case OpChan:
		if alt < len(o.Cases) {
			return o.Cases[alt].id()
		}
	}
	return o.Obj
}

type hbDelta struct {
	th, ph    uint64 // new histories of the task and its partner
	obj, obj2 uintptr
	oh, oh2   uint64 // new histories of the objects touched
	sum       uint64
	last      *Task
}

// hbCompute derives the happens-before histories after move m without
// changing anything.
//
//go:norace
func (s *Sched) hbCompute(m *Move) hbDelta {
	t := m.t
	op := t.op
	var d hbDelta
	if op.siteHash == 0 {
		op.siteHash = strhash(op.SiteString()) | 1
	}
	h := mix(t.hb, op.siteHash^uint64(op.Kind)<<56^uint64(m.Alt)<<40)
	d.sum = s.hbsum
	d.obj = op.objID(m.Alt)
	if m.p != nil {
		h = mix(h, m.p.hb)
		h = mix(h, uint64(m.PAlt))
	}
	if d.obj != 0 {
		oh, ok := s.objHB[d.obj]
		if !ok {
			oh = 0x1234567
		} else {
			d.sum -= oh
		}
		h = mix(h, oh)
		d.oh = h
		d.sum += h
	}
	if op.Obj2 != 0 && op.Obj2 != d.obj {
		d.obj2 = op.Obj2
		oh, ok := s.objHB[d.obj2]
		if !ok {
			oh = 0x7654321
		} else {
			d.sum -= oh
		}
		h = mix(h, oh)
		d.oh2 = h
		d.sum += h
	}
	d.th = h
	d.sum += h - t.hb
	d.last = t
	if m.p != nil {
		d.ph = mix(h, 0xABCDEF)
		d.sum += d.ph - m.p.hb
		// the receiver continues last unless the sender was running before
		snd, rcv := m.t, m.p
		if !m.t.op.Cases[m.Alt].Send {
			snd, rcv = m.p, m.t
		}
		d.last = rcv
		if s.last == snd {
			d.last = snd
		}
	}
	return d
}

//go:norace
func (d *hbDelta) fingerprint() uint64 { return mix(d.sum, uint64(d.last.ID)+1) }

// hbStep folds a move into the happens-before histories.
//
//go:norace
func (s *Sched) hbStep(m *Move) {
	d := s.hbCompute(m)
	if d.obj != 0 {
		s.objHB[d.obj] = d.oh
	}
	if d.obj2 != 0 {
		s.objHB[d.obj2] = d.oh2
	}
	m.t.hb = d.th
	if m.p != nil {
		m.p.hb = d.ph
	}
	s.hbsum = d.sum
}

//go:norace
func (s *Sched) execute(m *Move) {
	s.hbStep(m)
	if m.p == nil {
		t := m.t
		if t.op.CloseCh.IsValid() && !t.op.CloseCh.IsNil() {
			s.closedCh[t.op.CloseCh.Pointer()] = t.op.CloseCh
		}
		switch t.op.Kind {
		case OpLock:
			if t.op.RLock {
				t.op.Mu.Readers++
			} else {
				t.op.Mu.Held = true
				t.op.Mu.Owner = t.ID
			}
		case OpOnce:
			t.op.Once.Running = true
		}
		s.last = t
		s.resume(t, grant{alt: m.Alt})
		return
	}
	// rendezvous: both tasks perform their real channel operation together,
	// then continue one after the other (sender first).
	a, b := m.t, m.p
	snd, rcv := a, b
	if !a.op.Cases[m.Alt].Send {
		snd, rcv = b, a
	}
	a.state, b.state = stRunning, stRunning
	a.sendGrant(grant{alt: m.Alt, pair: true})
	b.sendGrant(grant{alt: m.PAlt, pair: true})
	s.waitEvent()
	s.waitEvent()
	keep := s.last == snd
	s.resume(snd, grant{})
	s.resume(rcv, grant{})
	if keep {
		s.last = snd
	} else {
		s.last = rcv
	}
}

//go:norace
func (s *Sched) isClosed(c *Case) bool {
	id := c.id()
	if _, ok := s.closedCh[id]; ok {
		return true
	}
	if c.Ch.Len() > 0 {
		return false
	}
	if c.Ch.Type().ChanDir()&reflect.RecvDir == 0 {
		return false
	}
	x, ok := c.Ch.TryRecv()
	if ok {
		panic("vsched: engine error: readiness probe consumed a value (unhooked sender)")
	}
	if x.IsValid() {
		s.closedCh[id] = c.Ch
		return true
	}
	return false
}

// enabled lists the enabled moves in canonical order: those of the task
// that ran last first, then the other tasks by ascending id.
//
//go:norace
func (s *Sched) enabled() []Move {
	var moves []Move
	n := len(s.tasks)
	order := make([]*Task, 0, n)
	if s.last != nil && s.last.state == stParked {
		order = append(order, s.last)
	}
	if s.delay && s.last != nil {
		for _, t := range s.tasks {
			if t.state == stParked && t.ID > s.last.ID {
				order = append(order, t)
			}
		}
		for _, t := range s.tasks {
			if t.state == stParked && t.ID < s.last.ID {
				order = append(order, t)
			}
		}
	} else {
		for _, t := range s.tasks {
			if t.state == stParked && t != s.last {
				order = append(order, t)
			}
		}
	}
	lastEnabled := false
	add := func(mv Move) {
		if s.last != nil && (mv.t == s.last || mv.p == s.last) {
			lastEnabled = true
		}
		moves = append(moves, mv)
	}
	for oi, t := range order {
		op := t.op
		switch op.Kind {
		case OpYield, opCont:
			add(Move{Task: t.ID, Peer: -1, t: t})
		case OpChoose:
			for a := 0; a < op.N; a++ {
				mv := Move{Task: t.ID, Alt: a, Peer: -1, t: t}
				if a > 0 && op.DevCost {
					mv.DCost = 1
				}
				add(mv)
			}
		case OpLock:
			if op.RLock {
				if !op.Mu.Held {
					add(Move{Task: t.ID, Peer: -1, t: t})
				}
			} else if !op.Mu.Held && op.Mu.Readers == 0 {
				add(Move{Task: t.ID, Peer: -1, t: t})
			}
		case OpOnce:
			if !op.Once.Running {
				add(Move{Task: t.ID, Peer: -1, t: t})
			}
		case OpWait:
			if op.Cond() {
				add(Move{Task: t.ID, Peer: -1, t: t})
			}
		case OpChan:
			solo := 0
			for i := range op.Cases {
				c := &op.Cases[i]
				id := c.id()
				if id == 0 {
					continue
				}
				if c.Send {
					if _, cl := s.closedCh[id]; cl {
						solo++
						add(Move{Task: t.ID, Alt: i, Peer: -1, t: t})
						continue
					}
					if c.Ch.Cap() > 0 {
						if c.Ch.Len() < c.Ch.Cap() {
							solo++
							add(Move{Task: t.ID, Alt: i, Peer: -1, t: t})
						}
						continue
					}
				} else {
					if c.Ch.Len() > 0 || s.isClosed(c) {
						solo++
						add(Move{Task: t.ID, Alt: i, Peer: -1, t: t})
						continue
					}
					if c.Ch.Cap() > 0 {
						continue
					}
				}
				// unbuffered: look for partners later in the order (pairs
				// with earlier tasks were emitted from their side)
				for _, p := range order[oi+1:] {
					if p.op.Kind != OpChan {
						continue
					}
					for j := range p.op.Cases {
						pc := &p.op.Cases[j]
						if pc.Send == c.Send || pc.id() != id {
							continue
						}
						add(Move{Task: t.ID, Alt: i, Peer: p.ID, PAlt: j, t: t, p: p})
					}
				}
			}
			if op.HasDefault && solo == 0 {
				add(Move{Task: t.ID, Alt: len(op.Cases), Peer: -1, t: t})
			}
		}
	}
	if s.delay {
		// cost = rank of the move's owner among the enabled tasks in
		// round-robin order
		rank := -1
		var prev *Task
		for i := range moves {
			if moves[i].t != prev {
				rank++
				prev = moves[i].t
			}
			moves[i].PCost = rank
		}
		return moves
	}
	if s.last != nil && lastEnabled {
		for i := range moves {
			if moves[i].t != s.last && moves[i].p != s.last {
				moves[i].PCost = 1
			}
		}
		// moves involving last must come first so that index 0 is free
		if moves[0].t != s.last && moves[0].p != s.last {
			for i := range moves {
				if moves[i].t == s.last || moves[i].p == s.last {
					moves[0], moves[i] = moves[i], moves[0]
					break
				}
			}
		}
	}
	return moves
}
