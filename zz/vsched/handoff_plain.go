//go:build !race

package vsched

import "time"

// Plain builds hand control over with channels. (Channel hand-offs are
// happens-before edges, which is why the race detector needs the other
// implementation, see handoff_race.go.)

type handoffTask struct{ wake chan grant }
type handoffSched struct{ events chan *Task }

func (t *Task) initHandoff()  { t.ho.wake = make(chan grant) }
func (s *Sched) initHandoff() { s.ho.events = make(chan *Task) }

func (t *Task) sendGrant(g grant) { t.ho.wake <- g }

// sendKill delivers the kill grant unless the task is not waiting for one
// (it is stuck in real blocking code): then it is counted as leaked.
func (t *Task) sendKill() bool {
	select {
	case t.ho.wake <- grant{kill: true}:
		return true
	case <-time.After(2 * time.Second):
		return false
	}
}
func (t *Task) waitGrant() grant   { return <-t.ho.wake }
func (s *Sched) postEvent(t *Task) { s.ho.events <- t }
func (s *Sched) waitEvent()        { <-s.ho.events }
func (s *Sched) waitEventTimeout(d time.Duration) bool {
	select {
	case <-s.ho.events:
		return true
	case <-time.After(d):
		return false
	}
}

// waitEventOf waits for the event of task t; events of other tasks that
// arrive meanwhile (stragglers finishing late) are remembered.
func (s *Sched) waitEventOf(t *Task, d time.Duration) bool {
	if s.late[t] {
		delete(s.late, t)
		return true
	}
	timer := time.After(d)
	for {
		select {
		case x := <-s.ho.events:
			if x == t {
				return true
			}
			if s.late == nil {
				s.late = map[*Task]bool{}
			}
			s.late[x] = true
		case <-timer:
			return false
		}
	}
}

func (t *Task) publishDone() {}
func (t *Task) acquireDone() {}

// RaceMode reports whether this binary was built with the race detector.
const RaceMode = false

// RaceErrors is the number of data races reported so far (race builds only).
func RaceErrors() int { return 0 }
