package vsched

import (
	"context"
	"fmt"
	"reflect"
	"runtime"
	"sort"
	"time"
)

//go:norace
func callerPC(skip int) uintptr {
	var pcs [1]uintptr
	if runtime.Callers(skip+2, pcs[:]) == 0 {
		return 0
	}
	return pcs[0]
}

// Go starts fn as a new task (or a plain goroutine when inactive).
//
//go:norace
func Go(name string, fn func()) {
	if !Active() {
		go fn()
		return
	}
	S.spawn(name, fn)
}

// Yield is a scheduling point before a visible operation that is always
// enabled. obj identifies the object it touches (0: none).
//
//go:norace
func Yield(site string, obj uintptr) {
	if !Active() {
		return
	}
	S.park(&Op{Kind: OpYield, Site: site, Obj: obj})
}

// Yield2 is a scheduling point before an operation touching two objects.
//
//go:norace
func Yield2(site string, obj, obj2 uintptr) {
	if !Active() {
		return
	}
	S.park(&Op{Kind: OpYield, Site: site, Obj: obj, Obj2: obj2})
}

// CtxObj is the object identity shared by all context cancellations; code
// that polls a context's state without a channel operation yields on it.
const CtxObj = 2

// YieldPC is Yield with the site taken from the caller's caller.
//
//go:norace
func YieldPC(obj uintptr) {
	if !Active() {
		return
	}
	S.park(&Op{Kind: OpYield, PC: callerPC(1), Obj: obj})
}

// Choose is an environment choice point with n answers; 0 is the default.
// When dev is true every other answer costs one deviation.
//
//go:norace
func Choose(site string, n int, dev bool) int {
	if !Active() || n <= 1 {
		return 0
	}
	g, _ := S.park(&Op{Kind: OpChoose, Site: site, N: n, DevCost: dev})
	return g.alt
}

// WaitFor blocks the task until cond holds. cond is evaluated by the
// scheduler while every task is parked.
//
//go:norace
func WaitFor(site string, obj uintptr, cond func() bool) {
	if !Active() {
		panic("vsched.WaitFor outside the scheduler: " + site)
	}
	S.park(&Op{Kind: OpWait, Site: site, Cond: cond, Obj: obj})
}

// Lock is the scheduling point of Mutex.Lock.
//
//go:norace
func Lock(m *MutexState, rlock bool) {
	S.park(&Op{Kind: OpLock, PC: callerPC(1), Mu: m, RLock: rlock})
}

// OnceEnter is the scheduling point of Once.Do.
//
//go:norace
func OnceEnter(o *OnceState) {
	S.park(&Op{Kind: OpOnce, PC: callerPC(1), Once: o})
}

// Logf appends to the execution's observation log.
//
//go:norace
func Logf(format string, a ...any) {
	if S != nil && !S.killing {
		S.exec.Log = append(S.exec.Log, fmt.Sprintf(format, a...))
	}
}

// TaskName returns the running task's name.
//
//go:norace
func TaskName() string {
	if S != nil && S.cur != nil {
		return S.cur.Name
	}
	return ""
}

// ---- channels ----

//go:norace
func chanOp(site string, cases []Case, hasDefault bool) (int, reflect.Value, bool) {
	s := S
	g, t := s.park(&Op{Kind: OpChan, Site: site, Cases: cases, HasDefault: hasDefault})
	if g.alt >= len(cases) {
		return -1, reflect.Value{}, false
	}
	c := cases[g.alt]
	var rv reflect.Value
	var ok bool
	if c.Send {
		c.Ch.Send(c.Val)
	} else {
		rv, ok = c.Ch.Recv()
	}
	if g.pair {
		s.parkCont(t)
	}
	return g.alt, rv, ok
}

// RecvCase / SendCase build select cases.
//
//go:norace
func RecvCase(ch any) Case { return Case{Ch: reflect.ValueOf(ch)} }

//go:norace
func SendCase(ch any, v any) Case {
	cv := reflect.ValueOf(ch)
	var vv reflect.Value
	if cv.IsValid() {
		et := cv.Type().Elem()
		if v == nil {
			vv = reflect.Zero(et)
		} else {
			vv = reflect.ValueOf(v)
			if vv.Type() != et {
				vv = vv.Convert(et)
			}
		}
	}
	return Case{Send: true, Ch: cv, Val: vv}
}

// Select performs one communication among cases; it returns the index of
// the case that fired (-1: default), and for a receive the value and ok.
//
//go:norace
func Select(site string, hasDefault bool, cases ...Case) (int, any, bool) {
	if !Active() {
		rc := make([]reflect.SelectCase, 0, len(cases)+1)
		for _, c := range cases {
			if c.Send {
				rc = append(rc, reflect.SelectCase{Dir: reflect.SelectSend, Chan: c.Ch, Send: c.Val})
			} else {
				rc = append(rc, reflect.SelectCase{Dir: reflect.SelectRecv, Chan: c.Ch})
			}
		}
		if hasDefault {
			rc = append(rc, reflect.SelectCase{Dir: reflect.SelectDefault})
		}
		i, rv, ok := reflect.Select(rc)
		if i >= len(cases) {
			return -1, nil, false
		}
		if cases[i].Send || !rv.IsValid() {
			return i, nil, ok
		}
		return i, rv.Interface(), ok
	}
	i, rv, ok := chanOp(site, cases, hasDefault)
	if i < 0 || cases[i].Send || !rv.IsValid() {
		return i, nil, ok
	}
	return i, rv.Interface(), ok
}

// As converts the value received by Select to the element type of ch.
//
//go:norace
func As[T any](ch <-chan T, v any) T {
	if v == nil {
		var z T
		return z
	}
	return v.(T)
}

// ValFor types a send value by the channel it is sent on.
//
//go:norace
func ValFor[T any](ch chan<- T, v T) T { return v }

// Recv is `<-ch`.
//
//go:norace
func Recv[T any](site string, ch <-chan T) T {
	if !Active() {
		return <-ch
	}
	_, rv, _ := chanOp(site, []Case{{Ch: reflect.ValueOf(ch)}}, false)
	return conv[T](rv)
}

//go:norace
func conv[T any](rv reflect.Value) T {
	var z T
	if rv.IsValid() {
		reflect.ValueOf(&z).Elem().Set(rv)
	}
	return z
}

// Recv2 is `v, ok := <-ch`.
//
//go:norace
func Recv2[T any](site string, ch <-chan T) (T, bool) {
	if !Active() {
		v, ok := <-ch
		return v, ok
	}
	_, rv, ok := chanOp(site, []Case{{Ch: reflect.ValueOf(ch)}}, false)
	return conv[T](rv), ok
}

// Send is `ch <- v`.
//
//go:norace
func Send[T any](site string, ch chan<- T, v T) {
	if !Active() {
		ch <- v
		return
	}
	chanOp(site, []Case{{Send: true, Ch: reflect.ValueOf(ch), Val: reflect.ValueOf(&v).Elem()}}, false)
}

// CloseChan is `close(ch)`.
//
//go:norace
func CloseChan(site string, ch any) {
	cv := reflect.ValueOf(ch)
	if Active() {
		var id uintptr
		if cv.IsValid() && !cv.IsNil() {
			id = cv.Pointer()
		}
		S.park(&Op{Kind: OpYield, Site: site, Obj: id, CloseCh: cv})
	}
	cv.Close()
}

// ---- context ----

// WithCancel is context.WithCancel whose CancelFunc is a scheduling point.
//
//go:norace
func WithCancel(parent context.Context) (context.Context, context.CancelFunc) {
	ctx, cancel := context.WithCancel(parent)
	if !Active() {
		return ctx, cancel
	}
	return ctx, func() {
		if Active() {
			S.park(&Op{Kind: OpYield, PC: callerPC(1), Obj: 2})
		}
		cancel()
	}
}

// WithTimeout never fires under the scheduler: time is not a source of
// nondeterminism inside an execution.
//
//go:norace
func WithTimeout(parent context.Context, d time.Duration) (context.Context, context.CancelFunc) {
	if !Active() {
		return context.WithTimeout(parent, d)
	}
	return withTimer(parent)
}

//go:norace
func WithDeadline(parent context.Context, d time.Time) (context.Context, context.CancelFunc) {
	if !Active() {
		return context.WithDeadline(parent, d)
	}
	return withTimer(parent)
}

// withTimer: a timeout context of the code under test. Its timer never
// fires by itself; FireTimers fires every timer that is still armed.
//
//go:norace
func withTimer(parent context.Context) (context.Context, context.CancelFunc) {
	ctx, cancel := context.WithCancel(parent)
	S.timers = append(S.timers, cancel)
	return ctx, func() {
		if Active() {
			S.park(&Op{Kind: OpYield, PC: callerPC(1), Obj: CtxObj})
		}
		cancel()
	}
}

// FireTimers lets the time of every timeout / deadline context created so
// far by the code under test run out (at one scheduling point): whatever
// still depends on such a context is cancelled now. Harness code calls it at
// a moment when those timeouts should no longer matter (a handshake timeout
// after the handshake).
//
//go:norace
func FireTimers() int {
	if !Active() {
		return 0
	}
	S.park(&Op{Kind: OpYield, Site: "timers.fire", Obj: CtxObj})
	n := len(S.timers)
	for _, c := range S.timers {
		c()
	}
	S.timers = nil
	return n
}

// ---- maps ----

// MapKeys returns the keys of m in a deterministic order, so that ranging
// over a map is not a source of nondeterminism.
//
//go:norace
func MapKeys[M ~map[K]V, K comparable, V any](m M) []K {
	keys := make([]K, 0, len(m))
	for k := range m {
		keys = append(keys, k)
	}
	SortAny(keys)
	return keys
}

// SortAny sorts values of any comparable type: numerically for integers,
// lexically for strings, by formatted value otherwise.
//
//go:norace
func SortAny[K any](keys []K) {
	if len(keys) < 2 {
		return
	}
	kind := reflect.TypeOf(keys[0])
	var less func(i, j int) bool
	switch {
	case kind == nil:
		less = func(i, j int) bool { return fmt.Sprint(keys[i]) < fmt.Sprint(keys[j]) }
	case kind.Kind() >= reflect.Int && kind.Kind() <= reflect.Int64:
		less = func(i, j int) bool { return reflect.ValueOf(keys[i]).Int() < reflect.ValueOf(keys[j]).Int() }
	case kind.Kind() >= reflect.Uint && kind.Kind() <= reflect.Uintptr:
		less = func(i, j int) bool { return reflect.ValueOf(keys[i]).Uint() < reflect.ValueOf(keys[j]).Uint() }
	case kind.Kind() == reflect.String:
		less = func(i, j int) bool { return reflect.ValueOf(keys[i]).String() < reflect.ValueOf(keys[j]).String() }
	default:
		less = func(i, j int) bool { return fmt.Sprint(keys[i]) < fmt.Sprint(keys[j]) }
	}
	sort.SliceStable(keys, less)
}
