//go:build race

package vsched

import (
	"runtime"
	"sync/atomic"
	"time"
)

// Race builds hand control over by spinning on plain variables inside
// //go:norace functions: the race detector then sees NO happens-before edge
// between tasks other than those created by the real primitives the code
// under test executes, so an unsynchronised access pair is reported on every
// serialised schedule in which both accesses occur.

type handoffTask struct {
	granted uint32 // written by the scheduler, cleared by the task
	g       grant
	evt     uint32 // written by the task, cleared by the scheduler
	fin     uint32 // atomic: set when the task's goroutine ends
}
type handoffSched struct{}

func (t *Task) initHandoff()  {}
func (s *Sched) initHandoff() {}

//go:norace
func (t *Task) sendGrant(g grant) {
	t.ho.g = g
	t.ho.granted = 1
}

//go:norace
func (t *Task) sendKill() bool {
	t.sendGrant(grant{kill: true})
	return true
}

//go:norace
func (t *Task) waitGrant() grant {
	for t.ho.granted == 0 {
		runtime.Gosched()
	}
	g := t.ho.g
	t.ho.granted = 0
	return g
}

//go:norace
func (s *Sched) postEvent(t *Task) { t.ho.evt = 1 }

//go:norace
func (s *Sched) pollEvent() bool {
	for _, t := range s.tasks {
		if t.ho.evt != 0 {
			t.ho.evt = 0
			return true
		}
	}
	return false
}

//go:norace
func (s *Sched) waitEvent() {
	for !s.pollEvent() {
		runtime.Gosched()
	}
}

//go:norace
func (s *Sched) waitEventTimeout(d time.Duration) bool {
	deadline := time.Now().Add(d)
	for n := 0; ; n++ {
		if s.pollEvent() {
			return true
		}
		runtime.Gosched()
		if n%1024 == 0 && time.Now().After(deadline) {
			return false
		}
	}
}

// waitEventOf waits for the event of task t only.
//
//go:norace
func (s *Sched) waitEventOf(t *Task, d time.Duration) bool {
	deadline := time.Now().Add(d)
	for n := 0; t.ho.evt == 0; n++ {
		runtime.Gosched()
		if n%1024 == 0 && time.Now().After(deadline) {
			return false
		}
	}
	t.ho.evt = 0
	return true
}

// publishDone / acquireDone give the oracle (the scheduler goroutine, after
// the execution) a REAL happens-before edge from each finished task, by one
// atomic store / load per task: task -> oracle only, never task -> task.
func (t *Task) publishDone() { atomic.StoreUint32(&t.ho.fin, 1) }
func (t *Task) acquireDone() { atomic.LoadUint32(&t.ho.fin) }

// RaceMode reports whether this binary was built with the race detector.
const RaceMode = true

// RaceErrors is the number of data races reported so far.
func RaceErrors() int { return runtime.RaceErrors() }
