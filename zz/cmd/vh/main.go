// Command vh runs one property check: vh <property> <quick|thorough|--replay file>
package main

import (
	"fmt"
	"os"
	"runtime/pprof"
	"strconv"

	"github.com/frobnitzem/go-p9p/zzverif/core"
	"github.com/frobnitzem/go-p9p/zzverif/explore"
	"github.com/frobnitzem/go-p9p/zzverif/props"
)

func main() {
	if len(os.Args) == 2 && os.Args[1] == "-worker" {
		explore.WorkerMain(props.Lookup)
		return
	}
	if len(os.Args) < 3 {
		fmt.Println("usage: vh <property> quick|thorough | vh <property> --replay <file>; properties:", props.Props())
		os.Exit(2)
	}
	prop := os.Args[1]
	root := os.Getenv("VERIF_ROOT")
	if root == "" {
		root = "/verif"
	}
	if os.Args[2] == "--replay" {
		if len(os.Args) < 4 {
			fmt.Println("missing replay file")
			os.Exit(2)
		}
		os.Exit(props.ReplayFile(prop, os.Args[3]))
	}
	if os.Args[2] == "--one" {
		// vh <prop> --one <scenario> [bound] [devbound]: explore one scenario, print every finding
		sc := props.Lookup(prop, os.Args[3])
		if sc == nil {
			fmt.Println("unknown scenario")
			os.Exit(2)
		}
		pb, db := 1, 0
		if len(os.Args) > 4 {
			pb, _ = strconv.Atoi(os.Args[4])
		}
		if len(os.Args) > 5 {
			db, _ = strconv.Atoi(os.Args[5])
		}
		st := explore.Iterative(sc, explore.Options{PBound: pb, DBound: db})
		fmt.Printf("executions=%d completed=%d outcomes=%d\n", st.Execs, st.CompletedP, len(st.Outcomes))
		for k, v := range st.Outcomes {
			fmt.Printf("  outcome %6d  %s\n", v, k)
		}
		for i := range st.Viol {
			v := &st.Viol[i]
			err := explore.Confirm(sc, v)
			fmt.Printf("FINDING %s choices=%v confirm=%v\n%s\n", v.Sig, v.Choices, err, v.Msg)
			for _, l := range v.Trace {
				fmt.Println("   move:", l)
			}
			for _, l := range v.Log {
				fmt.Println("   log:", l)
			}
		}
		os.Exit(0)
	}
	f := props.Registry[prop]
	if f == nil {
		fmt.Println("unknown property", prop)
		os.Exit(2)
	}
	c := core.New(prop, os.Args[2], root)
	if s := os.Getenv("VERIF_SEED"); s != "" {
		c.Seed, _ = strconv.ParseInt(s, 10, 64)
	}
	if w := os.Getenv("VERIF_WORKERS"); w != "" {
		c.Workers, _ = strconv.Atoi(w)
	}
	if pf := os.Getenv("VERIF_PROFILE"); pf != "" {
		fh, _ := os.Create(pf)
		pprof.StartCPUProfile(fh)
		defer pprof.StopCPUProfile()
	}
	f(c)
	rc := c.Finish()
	pprof.StopCPUProfile()
	os.Exit(rc)
}
