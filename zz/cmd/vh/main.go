// Command vh runs one property check: vh <property> <quick|thorough|--replay file>
package main

import (
	"fmt"
	"os"
	"runtime/pprof"
	"strconv"

	"github.com/frobnitzem/go-p9p/zzverif/core"
	"github.com/frobnitzem/go-p9p/zzverif/explore"
	"github.com/frobnitzem/go-p9p/zzverif/props"
)

func main() {
	if len(os.Args) == 2 && os.Args[1] == "-worker" {
		explore.WorkerMain(props.Lookup)
		return
	}
	if len(os.Args) < 3 {
		fmt.Println("usage: vh <property> quick|thorough | vh <property> --replay <file>; properties:", props.Props())
		os.Exit(2)
	}
	prop := os.Args[1]
	root := os.Getenv("VERIF_ROOT")
	if root == "" {
		root = "/verif"
	}
	if os.Args[2] == "--replay" {
		if len(os.Args) < 4 {
			fmt.Println("missing replay file")
			os.Exit(2)
		}
		os.Exit(props.ReplayFile(prop, os.Args[3]))
	}
	f := props.Registry[prop]
	if f == nil {
		fmt.Println("unknown property", prop)
		os.Exit(2)
	}
	c := core.New(prop, os.Args[2], root)
	if s := os.Getenv("VERIF_SEED"); s != "" {
		c.Seed, _ = strconv.ParseInt(s, 10, 64)
	}
	if w := os.Getenv("VERIF_WORKERS"); w != "" {
		c.Workers, _ = strconv.Atoi(w)
	}
	if pf := os.Getenv("VERIF_PROFILE"); pf != "" {
		fh, _ := os.Create(pf)
		pprof.StartCPUProfile(fh)
		defer pprof.StopCPUProfile()
	}
	f(c)
	rc := c.Finish()
	pprof.StopCPUProfile()
	os.Exit(rc)
}
