package explore

import (
	"sort"
	"sync"
	"time"
)

// SeqResult is what executing one operation history on a fresh
// implementation instance (compared step by step with the reference model)
// yields.
type SeqResult[O any] struct {
	Key      string    // canonical model state reached (states with equal keys are merged)
	Outcome  string    // classification of the last step (for the distinct-outcome count)
	Findings []Finding // disagreements with the model / monitor violations
	Variants []O       // fault variants of the last operation to try from the same parent
	Dead     bool      // do not expand this state (violation, or model says terminal)
}

// SeqSpec describes an explicit-state search over operation histories.
type SeqSpec[O any] struct {
	Ops      func(key string, hist []O) []O // operations to try from a state, simplest first
	Exec     func(hist []O) SeqResult[O]    // must be safe for concurrent use (fresh instance per call)
	MaxDepth int
	Workers  int
	Deadline time.Time
}

type SeqStats[O any] struct {
	States      int64
	Transitions int64
	Depth       int
	Fixpoint    bool // the frontier became empty before MaxDepth
	Complete    bool // no deadline cut
	Outcomes    map[string]int64
	Viol        []SeqViolation[O]
	Samples     [][]O
}

type SeqViolation[O any] struct {
	Finding
	Hist []O
}

type seqNode[O any] struct {
	hist []O
	key  string
}

// BFS explores breadth-first, so the first history exposing a finding is a
// shortest one. Successor = fresh instance + replay of the history + one
// more operation.
func BFS[O any](spec SeqSpec[O]) *SeqStats[O] {
	st := &SeqStats[O]{Outcomes: map[string]int64{}, Complete: true}
	seen := map[string]bool{}
	root := spec.Exec(nil)
	st.Transitions++
	seen[root.Key] = true
	frontier := []seqNode[O]{{nil, root.Key}}
	sigSeen := map[string]bool{}
	record := func(fs []Finding, hist []O) {
		for _, f := range fs {
			if sigSeen[f.Sig] || len(st.Viol) >= 40 {
				continue
			}
			sigSeen[f.Sig] = true
			st.Viol = append(st.Viol, SeqViolation[O]{Finding: f, Hist: append([]O(nil), hist...)})
		}
	}
	record(root.Findings, nil)
	workers := spec.Workers
	if workers < 1 {
		workers = 1
	}
	type succ struct {
		hist []O
		res  SeqResult[O]
		ord  int
	}
	for depth := 0; depth < spec.MaxDepth && len(frontier) > 0; depth++ {
		st.Depth = depth + 1
		var mu sync.Mutex
		var all []succ
		var wg sync.WaitGroup
		jobs := make(chan int)
		cut := false
		for w := 0; w < workers; w++ {
			wg.Add(1)
			go func() {
				defer wg.Done()
				for i := range jobs {
					n := frontier[i]
					var local []succ
					ord := i << 20
					try := func(o O) SeqResult[O] {
						h := append(append(make([]O, 0, len(n.hist)+1), n.hist...), o)
						r := spec.Exec(h)
						local = append(local, succ{h, r, ord})
						ord++
						return r
					}
					for _, o := range spec.Ops(n.key, n.hist) {
						r := try(o)
						for _, v := range r.Variants {
							try(v)
						}
					}
					mu.Lock()
					all = append(all, local...)
					mu.Unlock()
				}
			}()
		}
		for i := range frontier {
			if !spec.Deadline.IsZero() && time.Now().After(spec.Deadline) {
				cut = true
				break
			}
			jobs <- i
		}
		close(jobs)
		wg.Wait()
		sort.Slice(all, func(i, j int) bool { return all[i].ord < all[j].ord })
		var next []seqNode[O]
		for _, s := range all {
			st.Transitions++
			st.Outcomes[s.res.Outcome]++
			record(s.res.Findings, s.hist)
			if s.res.Dead || seen[s.res.Key] {
				continue
			}
			seen[s.res.Key] = true
			next = append(next, seqNode[O]{s.hist, s.res.Key})
			if len(st.Samples) < 3 || (len(st.Samples) < 6 && len(s.hist) >= 3) {
				st.Samples = append(st.Samples, s.hist)
			}
		}
		if cut {
			st.Complete = false
			break
		}
		frontier = next
	}
	st.States = int64(len(seen))
	st.Fixpoint = len(frontier) == 0 && st.Complete
	return st
}
