// Package explore enumerates the executions of a scenario under vsched:
// stateless depth-first search over choice sequences with a preemption
// bound, a deviation bound, an optional happens-before state cache and
// process-level sharding.
package explore

import (
	"bufio"
	"encoding/json"
	"fmt"
	"os"
	"os/exec"
	"path/filepath"
	"sort"
	"strings"
	"sync"
	"time"

	"github.com/frobnitzem/go-p9p/zzverif/vsched"
)

// Finding is a property violation observed in one execution.
type Finding struct {
	Sig string // stable identity (used for de-duplication and known findings)
	Msg string
}

// Scenario is a closed system: Body runs as the root task and starts the
// other tasks; Check is the oracle evaluated after every execution.
type Scenario struct {
	Name     string
	Body     func() any // returns the per-execution harness state handed to Check
	Check    func(state any, e *vsched.Exec) (outcome string, findings []Finding)
	MaxSteps int
	Cache    bool // happens-before state cache allowed for this scenario
	Delay    bool // cost model: delay bounding instead of preemption bounding
}

// WithDelay returns a copy of sc that is explored with delay bounding; its
// name carries the suffix "~d" so that replays pick the same cost model.
func WithDelay(sc *Scenario) *Scenario {
	c := *sc
	c.Delay = true
	c.Name = sc.Name + "~d"
	return &c
}

type Options struct {
	PBound   int
	DBound   int
	Deadline time.Time
	NoCache  bool
}

// Violation is a finding together with its replay artefact.
type Violation struct {
	Finding
	Scenario string
	Choices  []int
	PBound   int
	DBound   int
	Log      []string
	Trace    []string
}

type Stats struct {
	Scenario   string
	Execs      int64
	Steps      int64
	States     int64
	Pruned     int64
	Skipped    int64 // alternatives not executed at all: their successor state was already claimed
	MaxPoints  int
	Outcomes   map[string]int64
	Complete   bool
	Horizon    int64
	Leaked     int64
	PBound     int
	DBound     int
	CompletedP int   // Iterative: largest preemption bound fully explored
	LastExecs  int64 // Iterative: executions of the last bound run
	Viol       []Violation
	Sample     []string
	Err        string
}

func (s *Stats) Merge(o *Stats) {
	s.Execs += o.Execs
	s.Steps += o.Steps
	s.States += o.States
	s.Pruned += o.Pruned
	s.Skipped += o.Skipped
	s.Horizon += o.Horizon
	s.Leaked += o.Leaked
	if o.MaxPoints > s.MaxPoints {
		s.MaxPoints = o.MaxPoints
	}
	if s.Outcomes == nil {
		s.Outcomes = map[string]int64{}
	}
	for k, v := range o.Outcomes {
		s.Outcomes[k] += v
	}
	if !o.Complete {
		s.Complete = false
	}
	seen := map[string]bool{}
	for _, v := range s.Viol {
		seen[v.Sig] = true
	}
	for _, v := range o.Viol {
		if !seen[v.Sig] {
			s.Viol = append(s.Viol, v)
			seen[v.Sig] = true
		}
	}
	if len(s.Sample) == 0 {
		s.Sample = o.Sample
	}
	if o.Err != "" && s.Err == "" {
		s.Err = o.Err
	}
}

type budget struct{ p, d int }

type explorer struct {
	sc       *Scenario
	opt      Options
	st       *Stats
	visited  map[uint64]budget
	useC     bool
	stack    [][]int
	raceSeen int
}

// runOnce executes the scenario following prefix, then the default move.
// When the cache is on, the execution is cut as soon as it reaches (beyond
// the prefix) a state already expanded with at least the remaining budgets.
func (ex *explorer) runOnce(prefix []int, trace bool) (*vsched.Exec, any, bool) {
	var state any
	pruned := false
	usedP, usedD := 0, 0
	choose := func(idx int, moves []vsched.Move, fp uint64) int {
		c := 0
		if idx < len(prefix) {
			c = prefix[idx]
			if c >= len(moves) {
				return -1
			}
		} else if ex.useC {
			// default continuation: stop if the state this move leads to was
			// already expanded with at least the remaining budgets
			rem := budget{ex.opt.PBound - usedP, ex.opt.DBound - usedD}
			if !ex.claim(moves[0].Next, rem) {
				pruned = true
				return -1
			}
		}
		usedP += moves[c].PCost
		usedD += moves[c].DCost
		return c
	}
	e := vsched.Run(vsched.Config{MaxSteps: ex.sc.MaxSteps, Choose: choose, Trace: trace, DelayCost: ex.sc.Delay}, func() {
		state = ex.sc.Body()
	})
	if pruned {
		e.Diverged = ""
	}
	return e, state, pruned
}

// claim records that the subtree below state fp is going to be explored
// with remaining budgets rem; it returns false when that (or more) has
// been claimed before.
func (ex *explorer) claim(fp uint64, rem budget) bool {
	b, ok := ex.visited[fp]
	if ok && b.p >= rem.p && b.d >= rem.d {
		return false
	}
	if !ok || (rem.p >= b.p && rem.d >= b.d) {
		ex.visited[fp] = rem
	}
	return true
}

func (ex *explorer) exploreFrom(root []int) {
	ex.stack = append(ex.stack[:0], root)
	for len(ex.stack) > 0 {
		if !ex.opt.Deadline.IsZero() && time.Now().After(ex.opt.Deadline) {
			ex.st.Complete = false
			return
		}
		prefix := ex.stack[len(ex.stack)-1]
		ex.stack = ex.stack[:len(ex.stack)-1]
		children := ex.visit(prefix)
		// push in reverse so that the first alternative is explored first
		for i := len(children) - 1; i >= 0; i-- {
			ex.stack = append(ex.stack, children[i])
		}
	}
}

// visit runs one execution and returns the child prefixes to explore.
func (ex *explorer) visit(prefix []int) [][]int {
	e, state, pruned := ex.runOnce(prefix, false)
	st := ex.st
	st.Execs++
	st.Steps += int64(e.Steps)
	if len(e.Points) > st.MaxPoints {
		st.MaxPoints = len(e.Points)
	}
	if e.Diverged != "" {
		st.Err = fmt.Sprintf("replay divergence in %s at prefix %v: %s", ex.sc.Name, prefix, e.Diverged)
		st.Complete = false
		return nil
	}
	if e.Horizon {
		st.Horizon++
	}
	st.Leaked += int64(e.Leaked)
	if vsched.RaceMode {
		if n := vsched.RaceErrors(); n > ex.raceSeen {
			ex.raceSeen = n
			b, _ := json.Marshal(map[string]any{"scenario": ex.sc.Name, "choices": e.Choices})
			fmt.Fprintf(os.Stderr, "\nVSCHED-RACE-AT %s\n", b)
		}
	}
	if pruned {
		st.Pruned++
	} else {
		outcome, findings := ex.sc.Check(state, e)
		st.Outcomes[outcome]++
		if len(st.Sample) == 0 {
			st.Sample = append([]string{fmt.Sprintf("choices=%v", e.Choices)}, e.Log...)
		}
		for _, f := range findings {
			ex.record(f, e)
		}
	}
	if e.Leaked > 0 {
		// a task could not be unwound (it blocks for real inside deferred
		// code): its goroutine lives on, so this process explores no further
		st.Err = fmt.Sprintf("%s: %d task(s) could not be unwound after schedule %v (real blocking inside a deferred call); exploration of this scenario stopped", ex.sc.Name, e.Leaked, e.Choices)
		st.Complete = false
		return nil
	}
	var children [][]int
	usedP, usedD := 0, 0
	for i := range e.Points {
		pt := &e.Points[i]
		if i >= len(prefix) {
			for alt := 1; alt < len(pt.Moves); alt++ {
				m := &pt.Moves[alt]
				if usedP+m.PCost > ex.opt.PBound || usedD+m.DCost > ex.opt.DBound {
					continue
				}
				if ex.useC && !ex.claim(m.Next, budget{ex.opt.PBound - usedP - m.PCost, ex.opt.DBound - usedD - m.DCost}) {
					ex.st.Skipped++
					continue
				}
				child := make([]int, i+1)
				copy(child, e.Choices[:i])
				child[i] = alt
				children = append(children, child)
			}
		}
		ch := &pt.Moves[pt.Chosen]
		usedP += ch.PCost
		usedD += ch.DCost
	}
	return children
}

func (ex *explorer) record(f Finding, e *vsched.Exec) {
	for _, v := range ex.st.Viol {
		if v.Sig == f.Sig {
			return
		}
	}
	if len(ex.st.Viol) >= 20 {
		return
	}
	v := Violation{Finding: f, Scenario: ex.sc.Name, Choices: append([]int{}, e.Choices...), PBound: ex.opt.PBound, DBound: ex.opt.DBound}
	ex.st.Viol = append(ex.st.Viol, v)
}

// Replay re-executes a recorded choice sequence with tracing and returns
// the execution, the oracle's verdict and a rendering of what happened.
func Replay(sc *Scenario, choices []int) (*vsched.Exec, string, []Finding) {
	ex := &explorer{sc: sc, st: &Stats{Outcomes: map[string]int64{}}}
	e, state, _ := ex.runOnce(choices, true)
	outcome, findings := sc.Check(state, e)
	return e, outcome, findings
}

// RunDefault executes the default schedule once, without tracing.
func RunDefault(sc *Scenario) (*vsched.Exec, string, []Finding) {
	ex := &explorer{sc: sc, st: &Stats{Outcomes: map[string]int64{}}}
	e, state, _ := ex.runOnce(nil, false)
	outcome, findings := sc.Check(state, e)
	return e, outcome, findings
}

// Render is a canonical text of an execution's observations, used to check
// that a schedule replays deterministically.
func Render(e *vsched.Exec) string {
	var b strings.Builder
	for _, l := range e.Log {
		b.WriteString(l)
		b.WriteByte('\n')
	}
	for _, bl := range e.Blocked {
		fmt.Fprintf(&b, "BLOCKED %s %s\n", bl.Task, bl.Op)
	}
	for _, p := range e.Panics {
		fmt.Fprintf(&b, "PANIC %s %s\n", p.Task, p.Value)
	}
	fmt.Fprintf(&b, "steps=%d horizon=%v\n", e.Steps, e.Horizon)
	return b.String()
}

// Confirm replays a violation five times and requires identical
// observations and the same finding each time.
func Confirm(sc *Scenario, v *Violation) error {
	var first string
	for i := 0; i < 5; i++ {
		e, _, findings := Replay(sc, v.Choices)
		r := Render(e)
		if i == 0 {
			first = r
			v.Log = e.Log
			v.Trace = e.Trace
			for _, bl := range e.Blocked {
				v.Log = append(v.Log, fmt.Sprintf("BLOCKED %s %s", bl.Task, bl.Op))
			}
			for _, p := range e.Panics {
				v.Log = append(v.Log, fmt.Sprintf("PANIC %s: %s\n%s", p.Task, p.Value, p.Stack))
			}
		} else if r != first {
			return fmt.Errorf("schedule %v of %s does not replay deterministically:\n--- first\n%s--- run %d\n%s", v.Choices, sc.Name, first, i+1, r)
		}
		found := false
		for _, f := range findings {
			if f.Sig == v.Sig {
				found = true
			}
		}
		if !found {
			return fmt.Errorf("finding %q of %s not reproduced on replay %d of %v", v.Sig, sc.Name, i+1, v.Choices)
		}
	}
	return nil
}

// Local explores in this process.
func Local(sc *Scenario, opt Options, roots [][]int) *Stats {
	st := &Stats{Scenario: sc.Name, Outcomes: map[string]int64{}, Complete: true, PBound: opt.PBound, DBound: opt.DBound}
	ex := &explorer{sc: sc, opt: opt, st: st, visited: map[uint64]budget{}, useC: sc.Cache && !opt.NoCache}
	if roots == nil {
		roots = [][]int{{}}
	}
	for _, r := range roots {
		ex.exploreFrom(r)
		if st.Err != "" || !st.Complete {
			break
		}
	}
	st.States = int64(len(ex.visited))
	if !ex.useC {
		st.States = st.Execs
	}
	return st
}

// Iterative explores with preemption bounds 0, 1, ..., opt.PBound in turn
// (each a complete exploration), stopping at the first bound that exposes a
// violation or does not finish in time. CompletedP is the largest bound
// fully explored (-1: none).
func Iterative(sc *Scenario, opt Options) *Stats {
	total := &Stats{Scenario: sc.Name, Outcomes: map[string]int64{}, Complete: true, DBound: opt.DBound, CompletedP: -1}
	for pb := 0; pb <= opt.PBound; pb++ {
		o := opt
		o.PBound = pb
		st := Local(sc, o, nil)
		total.Execs += st.Execs
		total.Steps += st.Steps
		total.Pruned += st.Pruned
		total.Skipped += st.Skipped
		total.Horizon += st.Horizon
		total.Leaked += st.Leaked
		total.States = st.States
		total.Outcomes = st.Outcomes
		total.Sample = st.Sample
		total.LastExecs = st.Execs
		if st.MaxPoints > total.MaxPoints {
			total.MaxPoints = st.MaxPoints
		}
		total.Err = st.Err
		for _, v := range st.Viol {
			dup := false
			for _, w := range total.Viol {
				if w.Sig == v.Sig {
					dup = true
				}
			}
			if !dup {
				total.Viol = append(total.Viol, v)
			}
		}
		if st.Err != "" || !st.Complete {
			total.Complete = false
			break
		}
		total.CompletedP = pb
		total.PBound = pb
		if len(st.Viol) > 0 {
			break
		}
	}
	return total
}

// RunMany explores every scenario in its own worker process (iterative
// preemption bounding, one happens-before cache per scenario), at most
// `workers` at a time, and returns the results in order.
func RunMany(prop string, scs []*Scenario, opts []Options, workers int) []*Stats {
	out := make([]*Stats, len(scs))
	jobs := make(chan int)
	var wg sync.WaitGroup
	if workers < 1 {
		workers = 1
	}
	for w := 0; w < workers; w++ {
		wg.Add(1)
		go func() {
			defer wg.Done()
			for i := range jobs {
				st, err := runWorker(workerReq{Prop: prop, Scenario: scs[i].Name, Opt: opts[i], Iterative: true})
				if err != nil {
					st = &Stats{Scenario: scs[i].Name, Err: err.Error(), CompletedP: -1}
				}
				out[i] = st
			}
		}()
	}
	for i := range scs {
		jobs <- i
	}
	close(jobs)
	wg.Wait()
	return out
}

// ---- sharding over worker processes ----

type workerReq struct {
	Prop      string
	Scenario  string
	Opt       Options
	Roots     [][]int
	Iterative bool // run preemption bounds 0..Opt.PBound in turn
}

// WorkerMain is the entry point of a worker process: it reads one request
// from stdin and writes the Stats as JSON to stdout.
func WorkerMain(lookup func(prop, name string) *Scenario) {
	var req workerReq
	if err := json.NewDecoder(bufio.NewReader(os.Stdin)).Decode(&req); err != nil {
		fmt.Fprintln(os.Stderr, "worker: bad request:", err)
		os.Exit(2)
	}
	sc := lookup(req.Prop, req.Scenario)
	if sc == nil {
		fmt.Fprintln(os.Stderr, "worker: unknown scenario", req.Scenario)
		os.Exit(2)
	}
	var st *Stats
	if req.Opt.PBound < 0 {
		// a single execution of the default schedule
		e, outcome, findings := RunDefault(sc)
		st = &Stats{Scenario: sc.Name, Outcomes: map[string]int64{outcome: 1}, Complete: true, Execs: 1, Steps: int64(e.Steps), States: 1, CompletedP: -1, LastExecs: 1}
		if e.Horizon {
			st.Horizon = 1
		}
		for _, f := range findings {
			st.Viol = append(st.Viol, Violation{Finding: f, Scenario: sc.Name})
		}
		st.Sample = []string{outcome}
	} else if req.Iterative {
		st = Iterative(sc, req.Opt)
	} else {
		st = Local(sc, req.Opt, req.Roots)
	}
	json.NewEncoder(os.Stdout).Encode(st)
}

// Parallel explores sc with up to workers processes: the top of the
// execution tree is expanded here until there are enough subtrees, which
// are then dealt round-robin to worker processes.
func Parallel(prop string, sc *Scenario, opt Options, workers int) *Stats {
	total := &Stats{Scenario: sc.Name, Outcomes: map[string]int64{}, Complete: true, PBound: opt.PBound, DBound: opt.DBound}
	if workers <= 1 {
		return Local(sc, opt, nil)
	}
	ex := &explorer{sc: sc, opt: opt, st: total, visited: map[uint64]budget{}, useC: false}
	queue := [][]int{{}}
	target := workers * 24
	for len(queue) > 0 && len(queue) < target {
		p := queue[0]
		queue = queue[1:]
		queue = append(queue, ex.visit(p)...)
		if total.Err != "" {
			return total
		}
		if !opt.Deadline.IsZero() && time.Now().After(opt.Deadline) {
			total.Complete = false
			return total
		}
	}
	total.States = total.Execs
	if len(queue) == 0 {
		return total
	}
	if workers > len(queue) {
		workers = len(queue)
	}
	shards := make([][][]int, workers)
	for i, p := range queue {
		shards[i%workers] = append(shards[i%workers], p)
	}
	var mu sync.Mutex
	var wg sync.WaitGroup
	for w := 0; w < workers; w++ {
		wg.Add(1)
		go func(roots [][]int) {
			defer wg.Done()
			st, err := runWorker(workerReq{Prop: prop, Scenario: sc.Name, Opt: opt, Roots: roots})
			mu.Lock()
			defer mu.Unlock()
			if err != nil {
				total.Err = err.Error()
				total.Complete = false
				return
			}
			total.Merge(st)
		}(shards[w])
	}
	wg.Wait()
	sort.Slice(total.Viol, func(i, j int) bool { return total.Viol[i].Sig < total.Viol[j].Sig })
	return total
}

func runWorker(req workerReq) (*Stats, error) {
	cmd := exec.Command(os.Args[0], "-worker")
	cmd.Env = append(os.Environ(), "GOMAXPROCS=1", "GOGC=800")
	in, _ := json.Marshal(req)
	cmd.Stdin = strings.NewReader(string(in))
	cmd.Stderr = os.Stderr
	out, err := cmd.Output()
	if err != nil {
		return nil, fmt.Errorf("worker for %s failed: %v", req.Scenario, err)
	}
	var st Stats
	if err := json.Unmarshal(out, &st); err != nil {
		return nil, fmt.Errorf("worker for %s: bad output: %v", req.Scenario, err)
	}
	return &st, nil
}

// ---- race mode ----

// RaceReport is one data race reported by the race detector during a
// race-mode exploration, with the schedule that was executing.
type RaceReport struct {
	Sites    [2]string // innermost frames of the two accesses inside the code under test
	Harness  bool      // an access belongs to the harness or engine (an engine error, not a finding)
	Choices  []int
	Scenario string
	Text     string
}

func (r *RaceReport) Sig() string {
	a, b := r.Sites[0], r.Sites[1]
	if b < a {
		a, b = b, a
	}
	return a + "|" + b
}

// RaceBinary is the path of the race-detector build of this program.
func RaceBinary() string {
	if p := os.Getenv("VERIF_RACE_BIN"); p != "" {
		return p
	}
	return filepath.Join(os.Getenv("VERIF_SCRATCHDIR"), "vh-race")
}

// RaceRun explores sc in a worker process built with the race detector
// (norace hand-offs: no happens-before edges other than the program's own)
// and returns the exploration statistics and the races reported.
func RaceRun(prop string, sc *Scenario, opt Options, iterative bool, roots [][]int) (*Stats, []RaceReport, error) {
	cmd := exec.Command(RaceBinary(), "-worker")
	cmd.Env = append(os.Environ(), "GOMAXPROCS=2", "GOGC=400", "GORACE=halt_on_error=0 atexit_sleep_ms=0 history_size=2")
	in, _ := json.Marshal(workerReq{Prop: prop, Scenario: sc.Name, Opt: opt, Iterative: iterative, Roots: roots})
	cmd.Stdin = strings.NewReader(string(in))
	var errb strings.Builder
	cmd.Stderr = &errb
	out, err := cmd.Output()
	reports := ParseRaces(errb.String())
	if err != nil {
		if len(reports) == 0 {
			return nil, nil, fmt.Errorf("race worker for %s failed: %v\n%s", sc.Name, err, tailStr(errb.String(), 2000))
		}
	}
	var st Stats
	if len(out) > 0 {
		if jerr := json.Unmarshal(out, &st); jerr != nil {
			return nil, reports, fmt.Errorf("race worker for %s: bad output: %v", sc.Name, jerr)
		}
	}
	return &st, reports, nil
}

func tailStr(s string, n int) string {
	if len(s) > n {
		return s[len(s)-n:]
	}
	return s
}

// ParseRaces extracts the race detector's reports and the VSCHED-RACE-AT
// markers that follow them from a worker's stderr.
func ParseRaces(stderr string) []RaceReport {
	var out []RaceReport
	var pending []RaceReport
	lines := strings.Split(stderr, "\n")
	for i := 0; i < len(lines); i++ {
		l := lines[i]
		if strings.HasPrefix(l, "VSCHED-RACE-AT ") {
			var m struct {
				Scenario string
				Choices  []int
			}
			json.Unmarshal([]byte(strings.TrimPrefix(l, "VSCHED-RACE-AT ")), &m)
			for _, r := range pending {
				r.Scenario, r.Choices = m.Scenario, m.Choices
				out = append(out, r)
			}
			pending = nil
			continue
		}
		if !strings.HasPrefix(l, "WARNING: DATA RACE") {
			continue
		}
		var r RaceReport
		j := i + 1
		var block []string
		for ; j < len(lines) && !strings.HasPrefix(lines[j], "=================="); j++ {
			block = append(block, lines[j])
		}
		r.Text = strings.Join(block, "\n")
		// the two access stacks: from "Read at"/"Write at" and "Previous read/write at" up to the blank line
		idx := 0
		for k := 0; k < len(block) && idx < 2; k++ {
			b := block[k]
			if strings.Contains(b, " at 0x") && (strings.HasPrefix(b, "Read at") || strings.HasPrefix(b, "Write at") || strings.HasPrefix(b, "Previous read at") || strings.HasPrefix(b, "Previous write at") || strings.HasPrefix(b, "Atomic") || strings.HasPrefix(b, "Previous atomic")) {
				site, harness := "", false
				first := true
				for k++; k < len(block) && strings.TrimSpace(block[k]) != ""; k += 2 {
					fn := strings.TrimSpace(block[k])
					if p := strings.Index(fn, "("); p > 0 && strings.HasSuffix(fn, ")") {
						// strip the argument list
						if q := strings.LastIndex(fn, "("); q > 0 {
							fn = fn[:q]
						}
					}
					inModule := strings.Contains(fn, "github.com/frobnitzem/go-p9p")
					isHarness := strings.Contains(fn, "/zzverif/")
					if first && isHarness && !strings.Contains(fn, "/zzverif/vsync.") && !strings.Contains(fn, "/zzverif/vsched.") {
						harness = true
					}
					if inModule && !isHarness {
						first = false
						if site == "" {
							site = strings.TrimPrefix(fn, "github.com/frobnitzem/go-p9p")
							site = strings.TrimPrefix(site, "/")
							if site != "" && site[0] == '.' {
								site = "p9p" + site
							}
						}
					} else if first && !inModule {
						// runtime / standard library frame on top of the code under test: keep looking
						continue
					}
					first = false
				}
				if site == "" {
					site = "?"
					harness = true
				}
				r.Sites[idx] = site
				r.Harness = r.Harness || harness
				idx++
			}
		}
		pending = append(pending, r)
		i = j
	}
	// reports with no marker after them (the worker died): keep them, without a schedule
	out = append(out, pending...)
	return out
}
