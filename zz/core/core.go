// Package core holds what every check shares: the run context, evidence
// writing, known-findings matching and the VIOLATION / KNOWN-FINDING output
// contract.
package core

import (
	"crypto/sha256"
	"encoding/json"
	"fmt"
	"os"
	"path/filepath"
	"sort"
	"strings"
	"sync"
	"time"
)

type Known struct {
	Property    string `json:"property"`
	Kind        string `json:"kind"` // "known" | "fixed"
	Signature   string `json:"signature"`
	Commit      string `json:"commit,omitempty"`
	Description string `json:"description"`
}

type Ctx struct {
	Prop     string
	Tier     string
	Seed     int64
	Root     string // /verif
	Start    time.Time
	Deadline time.Time
	Workers  int

	mu        sync.Mutex
	known     []Known
	evals     int64
	states    int64
	trans     int64
	traces    int64
	outcomes  map[string]int64
	samples   []any
	extra     map[string]any
	assume    []string
	rule      string
	exhaust   bool
	capped    []string
	violSigs  map[string]bool
	knownHit  map[string]bool
	nviol     int
	level     string
	engineErr string
}

func New(prop, tier, root string) *Ctx {
	c := &Ctx{Prop: prop, Tier: tier, Root: root, Start: time.Now(), outcomes: map[string]int64{}, extra: map[string]any{},
		violSigs: map[string]bool{}, knownHit: map[string]bool{}, exhaust: true, level: "model_checking", Workers: 16}
	if b, err := os.ReadFile(filepath.Join(root, "known_findings.json")); err == nil {
		var all []Known
		if err := json.Unmarshal(b, &all); err != nil {
			fmt.Fprintln(os.Stderr, "ENGINE-ERROR bad known_findings.json:", err)
			os.Exit(2)
		}
		c.known = all
	}
	return c
}

func (c *Ctx) Quick() bool { return c.Tier != "thorough" }

// Budget sets the internal wall-clock budget of this run.
func (c *Ctx) Budget(quick, thorough time.Duration) {
	d := quick
	if !c.Quick() {
		d = thorough
	}
	c.Deadline = c.Start.Add(d)
}

func (c *Ctx) Expired() bool { return !c.Deadline.IsZero() && time.Now().After(c.Deadline) }

func (c *Ctx) SetLevel(l string)  { c.level = l }
func (c *Ctx) SetRule(r string)   { c.rule = r }
func (c *Ctx) Assume(a ...string) { c.assume = append(c.assume, a...) }
func (c *Ctx) Set(k string, v any) {
	c.mu.Lock()
	c.extra[k] = v
	c.mu.Unlock()
}

// NotExhaustive records that a cap or budget cut the enumeration.
func (c *Ctx) NotExhaustive(why string) {
	c.mu.Lock()
	c.exhaust = false
	c.capped = append(c.capped, why)
	c.mu.Unlock()
}

func (c *Ctx) Count(evals, states, trans, traces int64) {
	c.mu.Lock()
	c.evals += evals
	c.states += states
	c.trans += trans
	c.traces += traces
	c.mu.Unlock()
}

func (c *Ctx) Outcome(k string, n int64) {
	c.mu.Lock()
	c.outcomes[k] += n
	c.mu.Unlock()
}

func (c *Ctx) Sample(s any) {
	c.mu.Lock()
	if len(c.samples) < 8 {
		c.samples = append(c.samples, s)
	}
	c.mu.Unlock()
}

func (c *Ctx) EngineError(format string, a ...any) {
	msg := fmt.Sprintf(format, a...)
	fmt.Printf("ENGINE-ERROR property=%s %s\n", c.Prop, msg)
	c.mu.Lock()
	c.engineErr = msg
	c.mu.Unlock()
}

// Violation reports a violation with signature sig. replay is written to
// replays/<prop>/<hash>.json unless the signature is a listed known finding.
func (c *Ctx) Violation(sig, msg string, replay any) {
	c.mu.Lock()
	defer c.mu.Unlock()
	for _, k := range c.known {
		if k.Property == c.Prop && k.Kind == "known" && sigMatch(k.Signature, sig) {
			if !c.knownHit[k.Signature] {
				c.knownHit[k.Signature] = true
				fmt.Printf("KNOWN-FINDING: property=%s %s [%s]\n", c.Prop, k.Description, k.Signature)
			}
			return
		}
	}
	if c.violSigs[sig] {
		return
	}
	c.violSigs[sig] = true
	c.nviol++
	if c.nviol > 12 {
		if c.nviol <= 300 {
			fmt.Printf("VIOLATION-ALSO property=%s signature=%s\n", c.Prop, clean(sig))
		}
		return
	}
	h := sha256.Sum256([]byte(sig))
	dir := filepath.Join(c.Root, "replays", c.Prop)
	os.MkdirAll(dir, 0755)
	path := filepath.Join(dir, fmt.Sprintf("%x.json", h[:6]))
	doc := map[string]any{"property": c.Prop, "signature": sig, "message": msg, "replay": replay}
	b, _ := json.MarshalIndent(doc, "", " ")
	os.WriteFile(path, b, 0644)
	fmt.Printf("VIOLATION property=%s replay=%s\n", c.Prop, path)
	fmt.Printf("  signature: %s\n  %s\n", clean(sig), strings.ReplaceAll(clean(msg), "\n", "\n  "))
}

// clean makes a message printable (valid UTF-8, no control characters
// other than newline).
func clean(s string) string {
	var b strings.Builder
	for _, r := range s {
		switch {
		case r == '\n' || r == '\t':
			b.WriteRune(r)
		case r == 0xFFFD || r < 0x20 || r == 0x7f:
			b.WriteByte('?')
		default:
			b.WriteRune(r)
		}
	}
	if b.Len() > 6000 {
		return b.String()[:6000] + "..."
	}
	return b.String()
}

// sigMatch: a known signature matches exactly, or as a prefix when it ends in '*'.
func sigMatch(known, sig string) bool {
	if strings.HasSuffix(known, "*") {
		return strings.HasPrefix(sig, strings.TrimSuffix(known, "*"))
	}
	return known == sig
}

// Finish writes the evidence file and returns the process exit code.
func (c *Ctx) Finish() int {
	c.mu.Lock()
	defer c.mu.Unlock()
	distinct := int64(len(c.outcomes))
	keys := make([]string, 0, len(c.outcomes))
	for k := range c.outcomes {
		keys = append(keys, k)
	}
	sort.Strings(keys)
	if len(keys) > 40 {
		keys = keys[:40]
	}
	oc := map[string]int64{}
	for _, k := range keys {
		oc[k] = c.outcomes[k]
	}
	cov := map[string]any{
		"evaluations":                   c.evals,
		"distinct_nontrivial":           distinct,
		"rule":                          c.rule,
		"samples":                       c.samples,
		"states":                        c.states,
		"transitions":                   c.trans,
		"traces_validated_against_impl": c.traces,
		"exhaustive":                    c.exhaust,
		"distinct_outcomes":             oc,
	}
	if len(c.capped) > 0 {
		cov["caps_hit"] = c.capped
	}
	if distinct < 2 {
		cov["vacuous"] = true
	}
	for k, v := range c.extra {
		cov[k] = v
	}
	if c.samples == nil {
		cov["samples"] = []any{}
	}
	ev := map[string]any{
		"property_id": c.Prop,
		"tier":        c.Tier,
		"seed":        c.Seed,
		"level":       c.level,
		"coverage":    cov,
		"assumptions": c.assume,
		"wall_s":      time.Since(c.Start).Seconds(),
		"violations":  c.nviol,
	}
	if c.assume == nil {
		ev["assumptions"] = []string{}
	}
	b, _ := json.MarshalIndent(ev, "", " ")
	// VERIF_EVIDENCE_DIR: where runs that do not describe /repo itself (a
	// seeded change or a mutant applied, another repository) put their
	// evidence, so that evidence/ only ever holds runs on the real tree
	evdir := filepath.Join(c.Root, "evidence")
	if d := os.Getenv("VERIF_EVIDENCE_DIR"); d != "" {
		evdir = d
	}
	os.MkdirAll(evdir, 0755)
	if err := os.WriteFile(filepath.Join(evdir, c.Prop+".json"), b, 0644); err != nil {
		fmt.Println("ENGINE-ERROR cannot write evidence:", err)
		return 2
	}
	fmt.Printf("property=%s tier=%s evaluations=%d states=%d transitions=%d distinct_outcomes=%d exhaustive=%v violations=%d wall=%.1fs\n",
		c.Prop, c.Tier, c.evals, c.states, c.trans, distinct, c.exhaust, c.nviol, time.Since(c.Start).Seconds())
	// a confirmed violation decides the run; an engine error alone is exit 2
	if c.nviol > 0 {
		return 1
	}
	if c.engineErr != "" {
		return 2
	}
	return 0
}
