package props

import (
	"encoding/json"
	"fmt"
	"os"

	"github.com/frobnitzem/go-p9p/zzverif/explore"
)

// HistoryReplayers re-executes an operation history (engine B artefacts)
// on a fresh implementation instance and returns the oracle's findings.
var HistoryReplayers = map[string]func(raw []byte) ([]explore.Finding, error){}

// Replayers maps a property to a function re-running a recorded case.
var Replayers = map[string]func(doc map[string]any) int{}

// ReplayFile re-executes the case stored in a replay artefact and prints
// what happened. Exit code 1 when the violation reproduces, 0 when not.
func ReplayFile(prop, path string) int {
	b, err := os.ReadFile(path)
	if err != nil {
		fmt.Println(err)
		return 2
	}
	var doc map[string]any
	if err := json.Unmarshal(b, &doc); err != nil {
		fmt.Println(err)
		return 2
	}
	fmt.Printf("replaying %s: %v\n", path, doc["signature"])
	rp, _ := doc["replay"].(map[string]any)
	if rp != nil {
		if scn, ok := rp["scenario"].(string); ok {
			sc := Lookup(prop, scn)
			if sc == nil {
				fmt.Println("unknown scenario", scn)
				return 2
			}
			var choices []int
			if cs, ok := rp["choices"].([]any); ok {
				for _, x := range cs {
					choices = append(choices, int(x.(float64)))
				}
			}
			e, outcome, findings := explore.Replay(sc, choices)
			for _, l := range e.Trace {
				fmt.Println("  move:", l)
			}
			fmt.Print(explore.Render(e))
			fmt.Println("outcome:", outcome)
			for _, f := range findings {
				fmt.Printf("FINDING %s: %s\n", f.Sig, f.Msg)
			}
			if len(findings) > 0 {
				return 1
			}
			return 0
		}
	}
	if rp != nil {
		if h, ok := rp["history"]; ok {
			if f := HistoryReplayers[prop]; f != nil {
				raw, _ := json.Marshal(h)
				findings, err := f(raw)
				if err != nil {
					fmt.Println("cannot replay:", err)
					return 2
				}
				if hs, ok := rp["history_text"].([]any); ok {
					for i, l := range hs {
						fmt.Printf("  step %d: %v\n", i+1, l)
					}
				}
				for _, fd := range findings {
					fmt.Printf("FINDING %s: %s\n", fd.Sig, fd.Msg)
				}
				if len(findings) > 0 {
					return 1
				}
				fmt.Println("the history no longer violates the property")
				return 0
			}
		}
	}
	if f := Replayers[prop]; f != nil {
		return f(doc)
	}
	fmt.Println("no replayer for", prop, "- the artefact describes the failing case:")
	fmt.Println(string(b))
	return 0
}
