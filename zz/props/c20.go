package props

import (
	"context"
	"encoding/json"
	"fmt"
	"io"
	"runtime"
	"sort"
	"strings"
	"time"

	p9p "github.com/frobnitzem/go-p9p"
	"github.com/frobnitzem/go-p9p/zzverif/core"
	"github.com/frobnitzem/go-p9p/zzverif/explore"
	"github.com/frobnitzem/go-p9p/zzverif/mockfs"
	"github.com/frobnitzem/go-p9p/zzverif/vsync"
)

func init() {
	Registry["C20"] = c20
	HistoryReplayers["C20"] = func(raw []byte) ([]explore.Finding, error) {
		var h []FOp
		if err := json.Unmarshal(raw, &h); err != nil {
			return nil, err
		}
		vsync.SeqMode = true
		return c20Exec(9)(h).Findings, nil
	}
}

// spy is a Session that records every call and passes it on.
type spy struct {
	p9p.Session
	log []spyCall
	// eofAtEnd: an empty read at the end of a file is reported as io.EOF,
	// as a Session that is not behind a wire may do
	eofAtEnd bool
}

type spyCall struct {
	M     string
	Fid   p9p.Fid
	Fid2  p9p.Fid
	Names []string
	Name  string
	Perm  uint32
	Mode  p9p.Flag
	NQids int
	Err   bool
}

func (s *spy) rec(c spyCall, err error) {
	c.Err = err != nil
	s.log = append(s.log, c)
}
func (s *spy) Attach(ctx context.Context, fid, afid p9p.Fid, u, a string) (p9p.Qid, error) {
	q, err := s.Session.Attach(ctx, fid, afid, u, a)
	s.rec(spyCall{M: "attach", Fid: fid, Fid2: afid}, err)
	return q, err
}
func (s *spy) Walk(ctx context.Context, fid, newfid p9p.Fid, names ...string) ([]p9p.Qid, error) {
	q, err := s.Session.Walk(ctx, fid, newfid, names...)
	s.rec(spyCall{M: "walk", Fid: fid, Fid2: newfid, Names: append([]string{}, names...), NQids: len(q)}, err)
	return q, err
}
func (s *spy) Open(ctx context.Context, fid p9p.Fid, mode p9p.Flag) (p9p.Qid, uint32, error) {
	q, io, err := s.Session.Open(ctx, fid, mode)
	s.rec(spyCall{M: "open", Fid: fid, Mode: mode}, err)
	return q, io, err
}
func (s *spy) Create(ctx context.Context, fid p9p.Fid, name string, perm uint32, mode p9p.Flag) (p9p.Qid, uint32, error) {
	q, io, err := s.Session.Create(ctx, fid, name, perm, mode)
	s.rec(spyCall{M: "create", Fid: fid, Name: name, Perm: perm, Mode: mode}, err)
	return q, io, err
}
func (s *spy) Stat(ctx context.Context, fid p9p.Fid) (p9p.Dir, error) {
	d, err := s.Session.Stat(ctx, fid)
	s.rec(spyCall{M: "stat", Fid: fid}, err)
	return d, err
}
func (s *spy) WStat(ctx context.Context, fid p9p.Fid, d p9p.Dir) error {
	err := s.Session.WStat(ctx, fid, d)
	s.rec(spyCall{M: "wstat", Fid: fid}, err)
	return err
}
func (s *spy) Clunk(ctx context.Context, fid p9p.Fid) error {
	err := s.Session.Clunk(ctx, fid)
	s.rec(spyCall{M: "clunk", Fid: fid}, err)
	return err
}
func (s *spy) Remove(ctx context.Context, fid p9p.Fid) error {
	err := s.Session.Remove(ctx, fid)
	s.rec(spyCall{M: "remove", Fid: fid}, err)
	return err
}
func (s *spy) Read(ctx context.Context, fid p9p.Fid, p []byte, off int64) (int, error) {
	n, err := s.Session.Read(ctx, fid, p, off)
	s.rec(spyCall{M: "read", Fid: fid}, err)
	if s.eofAtEnd && n == 0 && err == nil {
		err = io.EOF
	}
	return n, err
}
func (s *spy) Write(ctx context.Context, fid p9p.Fid, p []byte, off int64) (int, error) {
	n, err := s.Session.Write(ctx, fid, p, off)
	s.rec(spyCall{M: "write", Fid: fid}, err)
	return n, err
}

// FOp is one file-system-level operation through the client layer.
type FOp struct {
	Kind  string // attach walk open opendir create stat wstat clunk remove
	Ent   int    // index into the list of live entries
	Names []string
	Name  string
	Perm  uint32
	Mode  p9p.Flag
	Fail  int // index of the failing mock file-system call within this operation (-1: none)
}

func (o FOp) String() string {
	s := ""
	switch o.Kind {
	case "attach":
		s = "attach"
	case "walk":
		s = fmt.Sprintf("e%d.walk(%q)", o.Ent, o.Names)
	case "open":
		s = fmt.Sprintf("e%d.open(%d)", o.Ent, o.Mode)
	case "create":
		s = fmt.Sprintf("e%d.create(%q,%#x,%d)", o.Ent, o.Name, o.Perm, o.Mode)
	default:
		s = fmt.Sprintf("e%d.%s", o.Ent, o.Kind)
	}
	if o.Fail >= 0 {
		s += fmt.Sprintf("[fs call %d fails]", o.Fail)
	}
	return s
}

type liveEnt struct {
	ent  p9p.Dirent
	fid  p9p.Fid
	path string
	dir  bool
	open bool
}

// refNormalize is a stack-machine reference for the client's name
// normalisation: "" and "." vanish, ".." pops (or stays as a leading ".."),
// a name with a separator is invalid.
func refNormalize(names []string) (steps []string, ok bool) {
	for _, n := range names {
		switch {
		case strings.ContainsAny(n, "/\\"):
			return nil, false
		case n == "" || n == ".":
		case n == "..":
			if len(steps) > 0 && steps[len(steps)-1] != ".." {
				steps = steps[:len(steps)-1]
			} else {
				steps = append(steps, "..")
			}
		default:
			steps = append(steps, n)
		}
	}
	return steps, true
}

type c20Run struct {
	mfs    *mockfs.FS
	sess   p9p.Session
	spy    *spy
	cfs    p9p.FileSys
	live   []*liveEnt
	model  *fidModel // the server's table as it should be
	dev    int
	poison bool
	lastN  int
}

func newC20Run() *c20Run {
	r := &c20Run{mfs: mockfs.New(), model: newFidModel()}
	r.sess = p9p.SFileSys(r.mfs)
	r.spy = &spy{Session: r.sess}
	r.cfs = p9p.CFileSys(r.spy)
	return r
}

func (r *c20Run) key() string {
	var ks []string
	for _, e := range r.live {
		ks = append(ks, fmt.Sprintf("%s,%v,%v", e.path, e.dir, e.open))
	}
	return fmt.Sprintf("dev%d|%s", r.dev, strings.Join(ks, ";"))
}

func (r *c20Run) do(o FOp, hist []FOp) (findings []explore.Finding, outcome string) {
	bad := func(sig, format string, a ...any) {
		var hs []string
		for _, h := range hist {
			hs = append(hs, h.String())
		}
		findings = append(findings, explore.Finding{Sig: "C20:" + sig, Msg: fmt.Sprintf(format, a...) + "\nhistory: " + strings.Join(hs, "; ")})
	}
	ctx := context.Background()
	start := r.mfs.NCalls()
	failed := ""
	r.mfs.Decide = func(n int, call string, h *mockfs.Ent) int {
		if o.Fail >= 0 && n == start+o.Fail {
			failed = call
			return mockfs.Fail
		}
		return mockfs.OK
	}
	if o.Fail >= 0 {
		r.dev++
	}
	logStart := len(r.spy.log)
	var e *liveEnt
	if o.Kind != "attach" {
		e = r.live[o.Ent]
	}
	var err error
	var newEnt p9p.Dirent
	var qids []p9p.Qid
	var dirNext p9p.ReadNext
	var opened p9p.File
	p := catch(func() {
		switch o.Kind {
		case "attach":
			newEnt, err = r.cfs.Attach(ctx, "u", "", nil)
		case "walk":
			qids, newEnt, err = e.ent.Walk(ctx, o.Names...)
		case "open":
			opened, err = e.ent.Open(ctx, o.Mode)
		case "opendir":
			dirNext, err = e.ent.OpenDir(ctx)
		case "create":
			newEnt, _, err = e.ent.Create(ctx, o.Name, o.Perm, o.Mode)
		case "stat":
			_, err = e.ent.Stat(ctx)
		case "wstat":
			err = e.ent.WStat(ctx, p9p.Dir{Mode: ^uint32(0), Length: ^uint64(0)})
		case "clunk":
			err = e.ent.Clunk(ctx)
		case "remove":
			err = e.ent.Remove(ctx)
		}
	})
	r.mfs.Decide = nil
	r.lastN = r.mfs.NCalls() - start
	if p != "" {
		r.poison = true
		bad("panic:"+o.Kind, "%s panicked or never returns: %s", o, p)
		return findings, o.Kind + ":panic"
	}
	calls := r.spy.log[logStart:]
	outcome = o.Kind + ":ok"
	if err != nil {
		outcome = o.Kind + ":err"
	}
	// the session call(s) this operation must have issued
	expectOne := func(m string) *spyCall {
		if len(calls) != 1 || calls[0].M != m {
			bad("wrong-session-call:"+o.Kind, "%s issued session calls %+v, expected exactly one %s", o, calls, m)
			return nil
		}
		if e != nil && calls[0].Fid != e.fid {
			bad("wrong-fid:"+o.Kind, "%s was issued on fid %d, the entry's own fid is %d", o, calls[0].Fid, e.fid)
			return nil
		}
		return &calls[0]
	}
	switch o.Kind {
	case "attach":
		if c := expectOne("attach"); c != nil {
			exp := r.model.step(SOp{Kind: "attach", Fid: c.Fid, Fid2: c.Fid2}, failed)
			if exp.OK != (err == nil) {
				bad("attach-result", "attach returned err=%v, the server's attach %v", err, exp.OK)
			}
			if err == nil {
				r.live = append(r.live, &liveEnt{ent: newEnt, fid: c.Fid, path: "/", dir: true})
			}
		}
	case "walk":
		steps, valid := refNormalize(o.Names)
		if !valid {
			if len(calls) != 0 || err == nil {
				bad("invalid-names-sent", "%s: names with a separator must be rejected before anything is sent (calls %+v, err=%v)", o, calls, err)
			}
			break
		}
		c := expectOne("walk")
		if c == nil {
			break
		}
		if strings.Join(c.Names, "\x00") != strings.Join(steps, "\x00") {
			bad("walk-names", "%s sent names %q, the normalised list is %q", o, c.Names, steps)
		}
		for _, l := range r.live {
			if l.fid == c.Fid2 {
				bad("fid-reused", "%s allocated fid %d which belongs to a live entry", o, c.Fid2)
			}
		}
		before := newFidModelFrom(r.model)
		exp := r.model.step(SOp{Kind: "walk", Fid: c.Fid, Fid2: c.Fid2, Names: steps}, failed)
		if exp.Skip {
			r.model = before
			return findings, "not-in-alphabet"
		}
		completed := exp.OK && exp.NQids == len(steps)
		switch {
		case completed && err != nil:
			bad("complete-walk-reported-failed", "%s: the server completed the walk (%d of %d elements) but the client layer reports %q", o, exp.NQids, len(steps), err)
		case !completed && err == nil:
			bad("incomplete-walk-reported-ok", "%s: the server did not complete the walk but the client layer reports success", o)
		}
		if completed && err == nil {
			nf := r.model.Fids[c.Fid2]
			le := &liveEnt{ent: newEnt, fid: c.Fid2, path: nf.Path, dir: nf.Dir}
			r.live = append(r.live, le)
			if n := r.model.lookup(nf.Path); n != nil && newEnt.Qid().Path != n.Path {
				bad("walk-qid", "%s: entry reports qid path %d, walked-to file has %d", o, newEnt.Qid().Path, n.Path)
			}
			_ = qids
		}
	case "open", "opendir":
		mode := o.Mode
		if o.Kind == "opendir" {
			mode = p9p.OREAD
		}
		if c := expectOne("open"); c != nil {
			if c.Mode != mode {
				bad("open-mode", "%s opened with mode %d", o, c.Mode)
			}
			exp := r.model.step(SOp{Kind: "open", Fid: c.Fid, Mode: c.Mode}, failed)
			if exp.OK != (err == nil) {
				bad("open-result", "%s returned err=%v, server open ok=%v", o, err, exp.OK)
			}
			if exp.OK {
				e.open = true
			}
			// a read through the opened file is one read on the entry's own fid
			if o.Kind == "open" && err == nil && opened != nil {
				rdStart := len(r.spy.log)
				if pn := catch(func() { opened.Read(ctx, make([]byte, 8), 0) }); pn != "" {
					r.poison = true
					bad("panic:file-read", "%s: reading through the opened file panicked or never returns: %s", o, pn)
				}
				rc := r.spy.log[rdStart:]
				if len(rc) != 1 || rc[0].M != "read" || rc[0].Fid != e.fid {
					bad("wrong-session-call:file-read", "%s: a read through the opened file issued session calls %+v, expected exactly one read on the entry's own fid %d", o, rc, e.fid)
				}
			}
			// a listing read to its end issues nothing but reads on the
			// entry's own fid (the fid-table comparison below then shows
			// that the entry is still bound)
			if o.Kind == "opendir" && err == nil && dirNext != nil && e.dir {
				drainStart := len(r.spy.log)
				r.spy.eofAtEnd = drainStart%2 == 1
				defer func() { r.spy.eofAtEnd = false }()
				if pn := catch(func() {
					for i := 0; i < 8; i++ {
						ds, derr := dirNext(ctx)
						if derr != nil || len(ds) == 0 {
							break
						}
					}
				}); pn != "" {
					r.poison = true
					bad("panic:opendir-listing", "%s: reading the listing panicked or never returns: %s", o, pn)
				}
				for _, dc := range r.spy.log[drainStart:] {
					if dc.M != "read" || dc.Fid != e.fid {
						bad("wrong-session-call:listing", "%s: reading the listing to its end issued session call %+v; only reads on the entry's own fid %d correspond to it", o, dc, e.fid)
						break
					}
				}
			}
		}
	case "create":
		if o.Name == "" || o.Name == "." || o.Name == ".." || strings.ContainsAny(o.Name, "/\\") || !e.dir {
			// must be refused locally or by the server; either way no new entry
			for _, c := range calls {
				if c.M == "create" {
					before := newFidModelFrom(r.model)
					exp := r.model.step(SOp{Kind: "create", Fid: c.Fid, Name: c.Name, Perm: c.Perm, Mode: c.Mode}, failed)
					if exp.Skip {
						r.model = before
						return findings, "not-in-alphabet"
					}
					if exp.OK {
						np := r.model.Fids[c.Fid]
						e.path, e.dir, e.open = np.Path, np.Dir, true
					}
				}
			}
			break
		}
		if c := expectOne("create"); c != nil {
			if c.Name != o.Name || c.Perm != o.Perm || c.Mode != o.Mode {
				bad("create-args", "%s sent create(%q,%#x,%d)", o, c.Name, c.Perm, c.Mode)
			}
			before := newFidModelFrom(r.model)
			exp := r.model.step(SOp{Kind: "create", Fid: c.Fid, Name: c.Name, Perm: c.Perm, Mode: c.Mode}, failed)
			if exp.Skip {
				r.model = before
				return findings, "not-in-alphabet"
			}
			if exp.AltUnbind {
				// server dropped the fid: the entry is gone
				if _, still := r.model.Fids[c.Fid]; still {
					if fids, _ := p9p.VerifFids(r.sess); !hasFid(fids, c.Fid) {
						delete(r.model.Fids, c.Fid)
					}
				}
				if _, still := r.model.Fids[c.Fid]; !still {
					r.live = append(r.live[:o.Ent], r.live[o.Ent+1:]...)
				}
				break
			}
			if exp.OK != (err == nil) {
				bad("create-result", "%s returned err=%v, server create ok=%v", o, err, exp.OK)
			}
			if exp.OK {
				np := r.model.Fids[c.Fid]
				e.ent, e.path, e.dir, e.open = newEnt, np.Path, np.Dir, true
			}
		}
	case "stat", "wstat":
		if c := expectOne(o.Kind); c != nil {
			exp := r.model.step(SOp{Kind: o.Kind, Fid: c.Fid}, failed)
			if exp.OK != (err == nil) {
				bad(o.Kind+"-result", "%s returned err=%v, server ok=%v", o, err, exp.OK)
			}
		}
	case "clunk", "remove":
		if c := expectOne(o.Kind); c != nil {
			r.model.step(SOp{Kind: o.Kind, Fid: c.Fid}, failed)
			r.live = append(r.live[:o.Ent], r.live[o.Ent+1:]...)
		}
	}
	// live entries <-> pairwise distinct fids, and the server holds exactly those
	seen := map[p9p.Fid]bool{}
	var want []string
	for _, l := range r.live {
		if seen[l.fid] {
			bad("shared-fid", "two live entries share fid %d", l.fid)
		}
		seen[l.fid] = true
		want = append(want, fmt.Sprint(l.fid))
	}
	fids, _ := p9p.VerifFids(r.sess)
	var got []string
	for _, f := range fids {
		if f.Locked {
			bad("locked", "server fid %d left locked", f.Fid)
		}
		if f.Bound || f.Locked {
			got = append(got, fmt.Sprint(f.Fid))
		}
	}
	sort.Strings(got)
	sort.Strings(want)
	if strings.Join(got, ",") != strings.Join(want, ",") {
		if len(want) == 0 {
			bad("fids-left-after-release", "after %s every entry the caller obtained is released, but the server still holds fids {%s}", o, strings.Join(got, ","))
		} else {
			bad("server-fids-differ", "after %s the live entries hold fids {%s} but the server has {%s} bound", o, strings.Join(want, ","), strings.Join(got, ","))
		}
	}
	if len(findings) > 0 {
		r.poison = true
	}
	return findings, outcome
}

func hasFid(fids []p9p.VerifFid, f p9p.Fid) bool {
	for _, x := range fids {
		if x.Fid == f && x.Bound {
			return true
		}
	}
	return false
}

func c20Ops(rich bool) func(key string, hist []FOp) []FOp {
	nameLists := [][]string{{}, {"a"}, {"a", "b"}, {"x"}, {"a", "x"}, {"a", "."}, {"", "a"}, {"a", "..", "a"}, {".."}, {"."}, {"a", ".."}, {""}, {"a/b"}, {"a", "x\\y"},
		// more elements than one Twalk may carry (16): still one walk, one verdict
		{"a", "b", "a", "a", "a", "a", "a", "a", "a", "a", "a", "a", "a", "a", "a", "a", "a"}}
	if rich {
		nameLists = append(nameLists, []string{"c"}, []string{"a", "d"}, []string{"a", "b", ".."}, []string{".", "."})
	}
	return func(key string, hist []FOp) []FOp {
		// number of live entries is recoverable from the key
		n := 0
		if i := strings.Index(key, "|"); i >= 0 && len(key) > i+1 {
			n = strings.Count(key[i+1:], ";") + 1
		}
		var ops []FOp
		add := func(o FOp) { o.Fail = -1; ops = append(ops, o) }
		if n < 3 {
			add(FOp{Kind: "attach"})
		}
		for e := 0; e < n; e++ {
			if n < 3 {
				for _, nl := range nameLists {
					add(FOp{Kind: "walk", Ent: e, Names: nl})
				}
			}
			add(FOp{Kind: "open", Ent: e, Mode: p9p.OREAD})
			add(FOp{Kind: "open", Ent: e, Mode: p9p.ORDWR})
			add(FOp{Kind: "opendir", Ent: e})
			add(FOp{Kind: "create", Ent: e, Name: "n", Perm: 0644, Mode: p9p.ORDWR})
			add(FOp{Kind: "create", Ent: e, Name: "n", Perm: p9p.DMDIR | 0755, Mode: p9p.OREAD})
			if rich {
				add(FOp{Kind: "create", Ent: e, Name: "..", Perm: 0644, Mode: p9p.ORDWR})
				add(FOp{Kind: "create", Ent: e, Name: "", Perm: 0644, Mode: p9p.ORDWR})
			}
			for _, k := range []string{"stat", "wstat", "clunk", "remove"} {
				add(FOp{Kind: k, Ent: e})
			}
		}
		return ops
	}
}

func c20(c *core.Ctx) {
	vsync.SeqMode = true
	c.Budget(70*time.Second, 10*time.Minute)
	c.SetRule("breadth-first search over histories of client-layer operations (Attach, Walk with name lists incl. '.', '', 'x/..' forms and '..', Open, OpenDir, Create, Stat, WStat, Clunk, Remove on up to 3 live entries) through CFileSys over a spying Session over the real SFileSys over a mock file system, with at most 1 injected file-system failure (thorough); after every step: exactly the corresponding session call on the entry's own fid (spy log), walks the server completed reported as success with the walked-to qid, live entries <-> pairwise distinct fids, server fid table (hook) == fids of live entries; fixpoint of (live-entry set) states; because that key hides the client layer's own counters, every explored history is followed on its (discarded) instance by probe walks of every live entry under the same oracle")
	c.Assume("name normalisation reference: stack machine written from the property statement", "server behaviour per the reference fid table of C08")
	dev := 0
	if !c.Quick() {
		dev = 1
	}
	ops := c20Ops(!c.Quick())
	st := explore.BFS(explore.SeqSpec[FOp]{
		Ops:      ops,
		Exec:     c20Exec(dev),
		MaxDepth: 14,
		Workers:  runtime.NumCPU(),
		Deadline: c.Deadline,
	})
	c.Count(st.Transitions, st.States, st.Transitions, st.Transitions)
	for k, v := range st.Outcomes {
		c.Outcome(k, v)
	}
	for _, h := range st.Samples {
		var hs []string
		for _, o := range h {
			hs = append(hs, o.String())
		}
		c.Sample(strings.Join(hs, "; "))
	}
	c.Set("bfs_depth_reached", st.Depth)
	c.Set("bfs_fixpoint", st.Fixpoint)
	c.Set("max_injected_failures_per_history", dev)
	if !st.Complete {
		c.NotExhaustive("time budget")
	}
	for _, v := range st.Viol {
		var hs []string
		for _, o := range v.Hist {
			hs = append(hs, o.String())
		}
		c.Violation(v.Sig, v.Msg, map[string]any{"history": v.Hist, "history_text": hs})
	}
}

// c20Exec executes a history on a fresh client layer / session / mock stack.
func c20Exec(dev int) func(hist []FOp) explore.SeqResult[FOp] {
	return func(hist []FOp) explore.SeqResult[FOp] {
		r := newC20Run()
		var res explore.SeqResult[FOp]
		for i, o := range hist {
			if o.Kind != "attach" && o.Ent >= len(r.live) {
				res.Dead, res.Key, res.Outcome = true, "dead", "stale"
				return res
			}
			fs, oc := r.do(o, hist[:i+1])
			if oc == "not-in-alphabet" {
				res.Dead, res.Key, res.Outcome = true, "skip", oc
				return res
			}
			if i == len(hist)-1 {
				res.Findings, res.Outcome = fs, oc
			} else if len(fs) > 0 {
				res.Dead, res.Key = true, "dead"
				return res
			}
			if r.poison {
				res.Dead = true
				break
			}
		}
		res.Key = r.key()
		// Probe: histories are merged by the live-entry set, which does not
		// include state hidden inside the client layer (its fid counter). On
		// this instance, which is thrown away anyway, every live entry is
		// therefore cloned and walked once more under the same oracle, so
		// that a divergence of hidden state shows one step later even when
		// the history itself is merged with a shorter one.
		if !res.Dead && len(res.Findings) == 0 && len(hist) > 0 {
			key, lastN, rdev := res.Key, r.lastN, r.dev
			n := len(r.live)
		probes:
			for e := 0; e < n && len(res.Findings) == 0; e++ {
				if r.live[e].open {
					continue // walking from an opened fid: the statement leaves it open
				}
				for _, nl := range [][]string{{}, {"a"}} {
					po := FOp{Kind: "walk", Ent: e, Names: nl, Fail: -1}
					fs, oc := r.do(po, append(append([]FOp{}, hist...), po))
					if oc == "not-in-alphabet" {
						break probes // the instance is no longer tracked by the model
					}
					for i := range fs {
						fs[i].Msg += "\n(found by the probe " + po.String() + " appended to the history)"
					}
					res.Findings = append(res.Findings, fs...)
				}
			}
			res.Key, r.lastN, r.dev = key, lastN, rdev
		}
		if len(hist) > 0 && !res.Dead && r.dev < dev && hist[len(hist)-1].Fail < 0 {
			for i := 0; i < r.lastN; i++ {
				v := hist[len(hist)-1]
				v.Fail = i
				res.Variants = append(res.Variants, v)
			}
		}
		return res
	}
}
