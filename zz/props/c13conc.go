package props

import (
	"context"
	"fmt"
	"sort"
	"strings"

	p9p "github.com/frobnitzem/go-p9p"
	"github.com/frobnitzem/go-p9p/zzverif/explore"
	"github.com/frobnitzem/go-p9p/zzverif/mockfs"
	"github.com/frobnitzem/go-p9p/zzverif/vsched"
)

func init() { ScenarioFns["C13"] = c13StopScenarios }

// c13StopState: a session with fids bound by a sequential setup, then one or
// two client operations racing with Session.Stop.
type c13StopState struct {
	fs        *mockfs.FS
	sess      p9p.Session
	setupOK   bool
	bound     map[*mockfs.Ent]bool // entries known to have been bound (after setup)
	results   []string
	returned  int
	stopDone  bool
	lateAfter SResult // an attach issued after Stop returned
}

// c13StopSpecs: every operation of C14's collision alphabet on fid 1, alone
// and in a few pairs, while another task stops the session.
func c13StopSpecs() []c14Spec {
	dirSetup, dirOps, fileSetup, fileOps := c14Collide()
	var out []c14Spec
	name := func(o SOp) string {
		if o.Kind == "walk" {
			return fmt.Sprintf("walk%d%v", o.Fid2, o.Names)
		}
		return o.Kind
	}
	for _, o := range dirOps {
		out = append(out, c14Spec{Name: "stop/dir/" + name(o), Setup: dirSetup, Tasks: [][]SOp{{o}}})
	}
	for _, o := range fileOps {
		out = append(out, c14Spec{Name: "stop/file/" + name(o), Setup: fileSetup, Tasks: [][]SOp{{o}}})
	}
	attach0 := sop("attach", 0)
	out = append(out,
		c14Spec{Name: "stop/fresh/attach", Setup: nil, Tasks: [][]SOp{{sop("attach", 1)}}},
		c14Spec{Name: "stop/root/walk-new,stat-new", Setup: []SOp{attach0}, Tasks: [][]SOp{{sop("walk", 0, p9p.Fid(2), []string{"a"}), sop("stat", 2)}}},
		c14Spec{Name: "stop/dir/clunk|walk3[b]", Setup: dirSetup, Tasks: [][]SOp{{sop("clunk", 1)}, {sop("walk", 1, p9p.Fid(3), []string{"b"})}}},
		c14Spec{Name: "stop/dir/walk1[d]|create", Setup: dirSetup, Tasks: [][]SOp{{sop("walk", 1, p9p.Fid(1), []string{"d"})}, {sop("create", 1, "n", uint32(0644), p9p.ORDWR)}}},
		c14Spec{Name: "stop/file/read|remove", Setup: fileSetup, Tasks: [][]SOp{{sop("read", 1)}, {sop("remove", 1)}}},
		c14Spec{Name: "stop/dir/walk2[]|walk3[b]", Setup: dirSetup, Tasks: [][]SOp{{sop("walk", 1, p9p.Fid(2), []string{})}, {sop("walk", 0, p9p.Fid(3), []string{"a", "b"})}}},
		c14Spec{Name: "stop/dir/create+fault", Setup: dirSetup, Tasks: [][]SOp{{sop("create", 1, "n", uint32(p9p.DMDIR|0755), p9p.OREAD)}}, Dev: 1},
		c14Spec{Name: "stop/dir/walk1[d]+fault", Setup: dirSetup, Tasks: [][]SOp{{sop("walk", 1, p9p.Fid(1), []string{"d"})}}, Dev: 1},
	)
	// Stop with hundreds of fids bound (nothing else running): a sweep that
	// only works up to some number of fids
	var many []SOp
	many = append(many, attach0)
	for i := 1; i <= 299; i++ {
		many = append(many, sop("walk", 0, p9p.Fid(i), []string{}))
	}
	out = append(out, c14Spec{Name: "stop/many-fids-300", Setup: many})
	return out
}

func c13StopScenarios() []*explore.Scenario {
	var out []*explore.Scenario
	for _, sp := range c13StopSpecs() {
		out = append(out, c13StopScenario(sp))
	}
	return out
}

func c13StopScenario(sp c14Spec) *explore.Scenario {
	spec := sp
	return &explore.Scenario{
		Name:  spec.Name,
		Cache: false, // the mock file system is harness state shared between tasks
		Body: func() any {
			st := &c13StopState{fs: mockfs.New(), bound: map[*mockfs.Ent]bool{}}
			st.sess = p9p.SFileSys(st.fs)
			ctx := context.Background()
			st.setupOK = true
			for _, o := range spec.Setup {
				if r := applyOp(ctx, st.sess, o); !r.OK() {
					st.setupOK = false
				}
			}
			fids, _ := p9p.VerifFids(st.sess)
			for _, f := range fids {
				if e, ok := f.Ent.(*mockfs.Ent); ok && e != nil && f.Bound {
					st.bound[e] = true
				}
			}
			st.fs.Concurrent = true
			if spec.Dev > 0 {
				failed := false
				st.fs.Decide = func(n int, call string, h *mockfs.Ent) int {
					if failed {
						return mockfs.OK
					}
					if vsched.Choose("fs.fail?"+call, 2, true) == 1 {
						failed = true
						return mockfs.Fail
					}
					return mockfs.OK
				}
			}
			st.results = make([]string, len(spec.Tasks))
			for ti, ops := range spec.Tasks {
				ti, ops := ti, ops
				vsched.Go(fmt.Sprintf("client%d", ti), func() {
					var rs []string
					me := vsched.TaskName()
					for _, o := range ops {
						before := len(st.fs.Handles)
						r := applyOp(ctx, st.sess, o)
						if r.OK() {
							rs = append(rs, o.Kind+":ok")
							// an attach, walk or create that reports success has
							// bound the entry the file system handed to it
							if o.Kind == "attach" || o.Kind == "walk" || o.Kind == "create" {
								for _, h := range st.fs.Handles[before:] {
									if h.Creator == me && !h.Dummy {
										st.bound[h] = true
									}
								}
							}
						} else {
							rs = append(rs, o.Kind+":"+firstWords(r.Err))
						}
					}
					st.results[ti] = strings.Join(rs, ",")
					st.returned++
				})
			}
			vsched.Go("stop", func() {
				st.sess.Stop(nil)
				st.stopDone = true
				// a stopped session binds nothing any more
				st.lateAfter = applyOp(ctx, st.sess, sop("attach", 9))
				st.returned++
			})
			return st
		},
		Check: func(state any, e *vsched.Exec) (string, []explore.Finding) {
			st := state.(*c13StopState)
			var fs []explore.Finding
			bad := func(sig, format string, a ...any) {
				fs = append(fs, explore.Finding{Sig: "C13:stop:" + sig, Msg: fmt.Sprintf(format, a...) + "\nresults: " + strings.Join(st.results, " | ") + "\nfile-system calls: " + strings.Join(st.fs.Calls, " ")})
			}
			if len(e.Panics) > 0 {
				bad("panic", "a task panicked: %s\n%s", panicList(e), e.Panics[0].Stack)
				return "panic", fs
			}
			if e.Horizon {
				return "horizon", fs
			}
			if !st.setupOK {
				bad("setup", "setup operations failed")
				return "setup", fs
			}
			if st.returned != len(spec.Tasks)+1 || len(e.Blocked) > 0 {
				bad("never-returns", "an operation or Stop never returns although every file-system call returned; blocked: %s", blockedList(e))
				return "deadlock", fs
			}
			for _, p := range st.fs.Problems {
				bad("fs:"+firstWords(p), "the file system observed: %s", p)
			}
			if st.lateAfter.OK() {
				bad("bind-after-stop", "attach on a stopped session succeeded")
			}
			fids, _ := p9p.VerifFids(st.sess)
			for _, f := range fids {
				if f.Bound || f.Locked {
					bad("bound-after-stop", "fid %d is still bound (or locked) after Stop and every operation have returned", f.Fid)
				}
				if e, ok := f.Ent.(*mockfs.Ent); ok && e != nil && f.Bound {
					st.bound[e] = true
				}
			}
			var rel []string
			for _, h := range st.fs.Handles {
				if h.Dummy {
					continue
				}
				rel = append(rel, fmt.Sprintf("#%d:%d", h.ID, h.Released))
				if st.bound[h] && h.Released != 1 {
					bad("after-stop", "entry #%d (%s), bound to a fid (when the race began, or by an operation that reported success), has been released %d times after Stop and every operation returned (must be exactly once)", h.ID, h.PathStr, h.Released)
				}
			}
			rs := append([]string{}, st.results...)
			sort.Strings(rs)
			return strings.Join(rs, "|") + " rel=" + strings.Join(rel, ","), fs
		},
	}
}
