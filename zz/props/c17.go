package props

import (
	"bytes"
	"context"
	"fmt"
	"reflect"
	"runtime"
	"strings"
	"sync"
	"time"

	p9p "github.com/frobnitzem/go-p9p"
	"github.com/frobnitzem/go-p9p/zzverif/core"
	"github.com/frobnitzem/go-p9p/zzverif/explore"
	"github.com/frobnitzem/go-p9p/zzverif/mockfs"
	"github.com/frobnitzem/go-p9p/zzverif/refcodec"
	"github.com/frobnitzem/go-p9p/zzverif/vconn"
	"github.com/frobnitzem/go-p9p/zzverif/vsched"
)

func init() {
	Registry["C17"] = c17
	ScenarioFns["C17"] = c17Scenarios
}

var c17NameLens = []int{1, 20, 200}

func c17Entry(i, sizeClass int) p9p.Dir {
	d := p9p.Dir{
		Type: uint16(i), Dev: uint32(i) * 3, Qid: p9p.Qid{Type: p9p.QType(i % 2 * 0x80), Version: uint32(i), Path: uint64(1000 + i)},
		Mode: 0644, AccessTime: time.Unix(int64(100+i), 0).UTC(), ModTime: time.Unix(int64(200+i), 0).UTC(), Length: uint64(i * 11),
		Name: fmt.Sprintf("%d%s", i, strings.Repeat("n", c17NameLens[sizeClass]-1)), UID: "u", GID: "gg", MUID: "",
	}
	if sizeClass == 0 {
		// the smallest entries a server can produce: a one-character name and
		// no owner strings (50 bytes; 49 is the floor with an empty name)
		d.UID, d.GID = "", ""
	}
	return d
}

func c17Listing(classes []int) []p9p.Dir {
	var out []p9p.Dir
	for i, c := range classes {
		out = append(out, c17Entry(i, c))
	}
	return out
}

func c17Iter(list []p9p.Dir, batches []int) p9p.ReadNext {
	pos := 0
	ended := false
	b := append([]int(nil), batches...)
	return func(ctx context.Context) ([]p9p.Dir, error) {
		if pos >= len(list) {
			// an iterator owes nothing after it has reported the end once
			if ended {
				return nil, fmt.Errorf("directory iterator called again after it reported the end")
			}
			ended = true
			return nil, nil
		}
		n := len(list) - pos
		if len(b) > 0 {
			if b[0] < n {
				n = b[0]
			}
			b = b[1:]
		}
		out := list[pos : pos+n]
		pos += n
		return out, nil
	}
}

// compositions of n into positive parts
func compositions(n int) [][]int {
	if n == 0 {
		return [][]int{nil}
	}
	var out [][]int
	for first := 1; first <= n; first++ {
		for _, rest := range compositions(n - first) {
			out = append(out, append([]int{first}, rest...))
		}
	}
	return out
}

// c17Serve runs one sequence of read counts against a fresh Readdir and
// judges it. counts are indices into the count menu.
func c17Serve(list []p9p.Dir, batches []int, menu []int, seq []int) (sig, text string, reads int) {
	rd := p9p.NewReaddir(p9p.NewCodec(), c17Iter(list, batches))
	var want []byte
	var sizes []int
	for _, d := range list {
		b := refcodec.StatBytes(d)
		want = append(want, b...)
		sizes = append(sizes, len(b))
	}
	ctx := context.Background()
	var got []byte
	off := int64(0)
	desc := func() string {
		var cs []int
		for _, i := range seq {
			cs = append(cs, menu[i])
		}
		return fmt.Sprintf("listing sizes %v, iterator batches %v, read counts %v", sizes, batches, cs)
	}
	for step := 0; ; step++ {
		ci := seq[len(seq)-1]
		if step < len(seq) {
			ci = seq[step]
		}
		count := menu[ci]
		// probes at any other offset must be rejected and change nothing
		for _, po := range []int64{off + 1, off - 1} {
			if po < 0 {
				continue
			}
			buf := make([]byte, count)
			n, err := rd.Read(ctx, buf, po)
			if err == nil {
				return "wrong-offset-accepted", fmt.Sprintf("read at offset %d accepted (%d bytes) while the running offset is %d (%s)", po, n, off, desc()), reads
			}
		}
		// the caller's buffer is, on alternate reads, a window of a larger one
		// (a pooled buffer): "at most the requested number of bytes" is its
		// length, not its capacity; what lies beyond must stay untouched
		buf := make([]byte, count)
		var backing []byte
		if step%2 == 1 {
			backing = make([]byte, count+4096)
			for i := range backing {
				backing[i] = 0xEE
			}
			buf = backing[:count]
		}
		var n int
		var err error
		if p := catch(func() { n, err = rd.Read(ctx, buf, off) }); p != "" {
			return "panic", fmt.Sprintf("Readdir.Read panicked: %s (%s)", p, desc()), reads
		}
		reads++
		if err != nil {
			return "read-error", fmt.Sprintf("read of %d at offset %d failed: %v (%s)", count, off, err, desc()), reads
		}
		if n > count {
			return "too-many-bytes", fmt.Sprintf("read of %d returned %d bytes (%s)", count, n, desc()), reads
		}
		for i := count; i < len(backing); i++ {
			if backing[i] != 0xEE {
				return "wrote-beyond-request", fmt.Sprintf("read of %d bytes wrote at index %d of the caller's larger buffer (%s)", count, i, desc()), reads
			}
		}
		if n == 0 {
			break
		}
		// whole entries only
		rest := buf[:n]
		for len(rest) > 0 {
			_, r2, derr := refcodec.DecodeStat(rest)
			if derr != nil {
				return "partial-entry", fmt.Sprintf("reply of %d bytes at offset %d does not consist of whole entries: %v (%s)", n, off, derr, desc()), reads
			}
			rest = r2
		}
		got = append(got, buf[:n]...)
		off += int64(n)
		if len(got) > len(want)+1000 || step > len(list)+3 {
			return "too-much", fmt.Sprintf("more bytes/reads than the listing has (%s)", desc()), reads
		}
	}
	if !bytes.Equal(got, want) {
		return "listing-differs", fmt.Sprintf("concatenated replies (%d bytes) differ from the entries' encodings in order (%d bytes), first difference at %d (%s)", len(got), len(want), firstDiff(got, want), desc()), reads
	}
	// after the terminal empty read, further reads stay empty
	buf := make([]byte, menu[0])
	if n, err := rd.Read(ctx, buf, off); n != 0 || err != nil {
		return "after-end", fmt.Sprintf("read after the terminal empty read returned %d bytes, %v (%s)", n, err, desc()), reads
	}
	return "", "", reads
}

func c17(c *core.Ctx) {
	c.Budget(90*time.Second, 12*time.Minute)
	c.SetRule("server side: every listing of 0..N entries with encoded sizes from {min,mid,max} x every composition of the listing into iterator batches x every sequence of read counts from {L, L+1, 2L-1, 2L, total, huge} (L = largest entry) until the empty read, with probes at offset+1 and offset-1 before every read; oracle: concatenation == reference encodings in order, whole entries, <= count, terminal empty read, other offsets rejected. client side: CFileSys(CSession) <-> ServeConn(SSession(SFileSys(mock))) under the controlled scheduler with the negotiated msize forced to {L+11, L+12, 2L+11, 1024, 65536}; the client iterator must yield exactly the entries. outcome = (entries, batches, reads) classes")
	c.Assume("read counts below the largest entry and msize below L+11 cannot carry an entry and are outside the statement", "refcodec is the reference encoding of a directory entry")
	maxN := 3
	if !c.Quick() {
		maxN = 5
	}
	var mu sync.Mutex
	classes := map[string]int64{}
	var total, reads int64
	type job struct {
		classes []int
		batches []int
	}
	var jobs []job
	for n := 0; n <= maxN; n++ {
		dims := make([]int, n)
		for i := range dims {
			dims[i] = 3
		}
		if n == 0 {
			dims = []int{1}
		}
		Cross(dims, 1, nil, func(idx []int) {
			cl := append([]int{}, idx[:n]...)
			for _, b := range compositions(n) {
				jobs = append(jobs, job{cl, b})
			}
		})
	}
	ch := make(chan job)
	var wg sync.WaitGroup
	for w := 0; w < runtime.NumCPU(); w++ {
		wg.Add(1)
		go func() {
			defer wg.Done()
			local := map[string]int64{}
			var lt, lr int64
			for j := range ch {
				list := c17Listing(j.classes)
				L, tot := 0, 0
				for _, d := range list {
					s := len(refcodec.StatBytes(d))
					tot += s
					if s > L {
						L = s
					}
				}
				if L == 0 {
					L = 49
				}
				menu := []int{L, L + 1, 2*L - 1, 2 * L, tot + 1, 70000}
				nm := len(menu)
				n := len(list)
				if n >= 5 {
					menu = []int{L, 2 * L, tot + 1}
					nm = 3
				}
				// every sequence of n+1 count choices (reads beyond reuse the last)
				dims := make([]int, n+1)
				for i := range dims {
					dims[i] = nm
				}
				Cross(dims, 1, c.Expired, func(idx []int) {
					sig, text, r := c17Serve(list, j.batches, menu, idx)
					lt++
					lr += int64(r)
					local[fmt.Sprintf("n%d/b%d/reads%d", n, len(j.batches), r)]++
					if sig != "" {
						c.Violation("C17:"+sig, text, map[string]any{"size_classes": j.classes, "batches": j.batches, "menu": menu, "count_indices": append([]int{}, idx...)})
					}
				})
			}
			mu.Lock()
			for k, v := range local {
				classes[k] += v
			}
			total += lt
			reads += lr
			mu.Unlock()
		}()
	}
	for _, j := range jobs {
		if c.Expired() {
			c.NotExhaustive("time budget (server side)")
			break
		}
		ch <- j
	}
	close(ch)
	wg.Wait()
	c.Count(total, int64(len(jobs)), reads, total)
	c.Set("server_side_listing_x_batch_combinations", len(jobs))
	c.Set("server_side_read_sequences", total)
	for k, v := range classes {
		c.Outcome(k, v)
	}
	c.Sample(map[string]any{"listing_size_classes": []int{0, 2, 1}, "iterator_batches": []int{1, 2}, "read_counts": "L, 2L-1, huge, L", "probe": "offset+1 and offset-1 before every read"})
	// client side, under the scheduler (default schedule of each configuration)
	n := 0
	for _, sc := range c17Scenarios() {
		if c.Quick() && !strings.Contains(sc.Name, "q") {
			continue
		}
		e, outcome, findings := explore.RunDefault(sc)
		n++
		c.Count(1, 1, int64(e.Steps), 1)
		c.Outcome("client "+outcome, 1)
		for _, f := range findings {
			c.Violation(f.Sig+"@"+sc.Name, f.Msg, map[string]any{"scenario": sc.Name, "choices": []int{}})
		}
	}
	c.Set("client_side_configurations", n)
}

type c17Client struct {
	list    []p9p.Dir
	got     []p9p.Dir
	err     string
	done    bool
	msize   int
	serveRe bool
}

// c17ClientScenario lists a directory through the client layer over a real
// connection whose negotiated msize is forced by rewriting the Tversion in
// flight.
func c17ClientScenario(name string, classes []int, batches []int, msizeOf func(L int) int) *explore.Scenario {
	return &explore.Scenario{
		Name:     name,
		MaxSteps: 200000,
		Body: func() any {
			list := c17Listing(classes)
			L := 0
			for _, d := range list {
				if s := len(refcodec.StatBytes(d)); s > L {
					L = s
				}
			}
			st := &c17Client{list: list, msize: msizeOf(L)}
			fs := mockfs.New()
			fs.Root.Children["a"].Listing = list
			fs.Root.Children["a"].Batches = batches
			cliEnd, proxyC := vconn.Pipe(false)
			proxyS, srvEnd := vconn.Pipe(false)
			cliEnd.Name, proxyC.Name, proxyS.Name, srvEnd.Name = "cli", "proxyC", "proxyS", "srv"
			ctx := context.Background()
			vsched.Go("serve", func() {
				p9p.ServeConn(ctx, srvEnd, p9p.SSession(p9p.SFileSys(fs)))
				st.serveRe = true
			})
			vsched.Go("proxy-up", func() {
				first := true
				for {
					f, err := proxyC.ReadFrame()
					if err != nil {
						proxyS.Close()
						return
					}
					if first {
						first = false
						if fc, _, derr := refcodec.Decode(f[4:]); derr == nil {
							if tv, ok := fc.Message.(p9p.MessageTversion); ok {
								tv.MSize = uint32(st.msize)
								f = refcodec.EncodeFrame(fc.Tag, tv)
							}
						}
					}
					proxyS.Write(f)
				}
			})
			vsched.Go("proxy-down", func() {
				for {
					f, err := proxyS.ReadFrame()
					if err != nil {
						proxyC.Close()
						return
					}
					proxyC.Write(f)
				}
			})
			vsched.Go("client", func() {
				defer func() { st.done = true }()
				sess, err := p9p.CSession(ctx, cliEnd)
				if err != nil {
					st.err = "CSession: " + err.Error()
					return
				}
				cfs := p9p.CFileSys(sess)
				root, err := cfs.Attach(ctx, "u", "", nil)
				if err != nil {
					st.err = "attach: " + err.Error()
					return
				}
				_, dir, err := root.Walk(ctx, "a")
				if err != nil {
					st.err = "walk: " + err.Error()
					return
				}
				next, err := dir.OpenDir(ctx)
				if err != nil {
					st.err = "opendir: " + err.Error()
					return
				}
				for i := 0; i < len(list)+3; i++ {
					ds, err := next(ctx)
					if err != nil {
						st.err = "next: " + err.Error()
						return
					}
					if len(ds) == 0 {
						break
					}
					st.got = append(st.got, ds...)
				}
				dir.Clunk(ctx)
				root.Clunk(ctx)
				cliEnd.Close()
			})
			return st
		},
		Check: func(state any, e *vsched.Exec) (string, []explore.Finding) {
			st := state.(*c17Client)
			var fs []explore.Finding
			bad := func(sig, format string, a ...any) {
				fs = append(fs, explore.Finding{Sig: "C17:client:" + sig, Msg: fmt.Sprintf(format, a...) + fmt.Sprintf(" (msize %d, %d entries)", st.msize, len(st.list))})
			}
			if len(e.Panics) > 0 {
				bad("panic", "%s", panicList(e))
			}
			if !st.done {
				bad("stuck", "client did not finish; blocked: %s", blockedList(e))
			} else if st.err != "" {
				bad("error", "listing failed: %s", st.err)
			} else {
				ok := len(st.got) == len(st.list)
				for i := 0; ok && i < len(st.got); i++ {
					ok = reflect.DeepEqual(normDir(st.got[i]), normDir(st.list[i]))
				}
				if !ok {
					var g, w []string
					for _, d := range st.got {
						g = append(g, d.Name[:1])
					}
					for _, d := range st.list {
						w = append(w, d.Name[:1])
					}
					bad("entries-differ", "client obtained entries %v, the server's listing is %v", g, w)
				}
			}
			return fmt.Sprintf("n=%d got=%d", len(st.list), len(st.got)), fs
		},
	}
}

func c17Scenarios() []*explore.Scenario {
	var out []*explore.Scenario
	ms := []struct {
		n string
		f func(L int) int
	}{
		{"L+11", func(L int) int { return L + 11 }},
		{"L+12", func(L int) int { return L + 12 }},
		{"2L+11", func(L int) int { return 2*L + 11 }},
		{"1024", func(L int) int {
			if L+11 > 1024 {
				return L + 11
			}
			return 1024
		}},
		{"65536", func(L int) int { return 65536 }},
	}
	lists := [][]int{{}, {0}, {2}, {0, 1, 2}, {2, 0, 2, 1}, {1, 1, 1, 1, 1}, {2, 2, 0, 0, 2}}
	// long listings of small entries: many entries per reply (more than any
	// fixed batch a client might assume), and several replies at small msize
	many := func(n int) []int {
		cl := make([]int, n)
		for i := range cl {
			if i%7 == 3 {
				cl[i] = 1
			}
		}
		return cl
	}
	lists = append(lists, many(11), many(25), many(64))
	for li, cl := range lists {
		for _, m := range ms {
			for bi, b := range [][]int{nil, {1, 1, 1, 1, 1}, {2, 1, 2}} {
				tag := ""
				if (li <= 3 || li >= 7) && bi == 0 {
					tag = "q"
				}
				out = append(out, c17ClientScenario(fmt.Sprintf("%sclient/list%d/msize=%s/batches%d", tag, li, m.n, bi), cl, b, m.f))
			}
		}
	}
	return out
}
