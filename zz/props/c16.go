package props

import (
	"fmt"
	"runtime"
	"strings"
	"sync"
	"time"

	p9p "github.com/frobnitzem/go-p9p"
	"github.com/frobnitzem/go-p9p/zzverif/core"
)

func init() { Registry["C16"] = c16 }

var c16Names = []string{"a", "..", ".", "", "b", "a/b", "a\\b", "/", "...", ".a", "a.", "..a"}

// refValid: the statement's acceptance rule; returns the number of leading
// ".." elements, or -1.
func refValid(names []string) int {
	n := 0
	for i, s := range names {
		switch {
		case s == "" || s == "." || strings.ContainsAny(s, "/\\"):
			return -1
		case s == "..":
			if n != i {
				return -1
			}
			n++
		}
	}
	return n
}

func canonical(p string) bool {
	if p == "/" {
		return true
	}
	if !strings.HasPrefix(p, "/") || strings.HasSuffix(p, "/") || strings.Contains(p, "\\") {
		return false
	}
	for _, el := range strings.Split(p[1:], "/") {
		if el == "" || el == "." || el == ".." {
			return false
		}
	}
	return true
}

// refResolve resolves names stepwise from the canonical directory dir.
func refResolve(dir string, names []string) (string, bool) {
	var st []string
	if dir != "/" {
		st = strings.Split(dir[1:], "/")
	}
	st = append([]string{}, st...)
	for _, n := range names {
		switch n {
		case "", ".":
		case "..":
			if len(st) == 0 {
				return "", false
			}
			st = st[:len(st)-1]
		default:
			st = append(st, n)
		}
	}
	return "/" + strings.Join(st, "/"), true
}

func c16(c *core.Ctx) {
	c.SetLevel("exploration")
	c.Budget(60*time.Second, 8*time.Minute)
	maxLen := 5
	if !c.Quick() {
		maxLen = 6
	}
	c.SetRule(fmt.Sprintf("every canonical directory of depth 0-3 over {a,b} x every name list of length <= %d over the 12-name alphabet (empty, '.', '..', ordinary, with '/' or '\\\\', dotted forms): ValidPath, WalkName, NormalizePath (idempotence, agreement with stepwise resolution from a deep start) against a stack-machine reference; CreateName on every name; ToWalk on every joined path, absolute and relative; distinct = (function, accept/reject, leading '..' count, result depth) classes", maxLen))
	c.Assume("reference resolver written from the property statement")
	dirs := []string{"/"}
	for d := 1; d <= 3; d++ {
		var rec func(cur []string)
		rec = func(cur []string) {
			if len(cur) == d {
				dirs = append(dirs, "/"+strings.Join(cur, "/"))
				return
			}
			for _, n := range []string{"a", "b"} {
				rec(append(append([]string{}, cur...), n))
			}
		}
		rec(nil)
	}
	var mu sync.Mutex
	classes := map[string]int64{}
	viol := func(sig, msg string, rp map[string]any) { c.Violation("C16:"+sig, msg, rp) }
	checkList := func(names []string, dirs []string, local map[string]int64) {
		rp := map[string]any{"names": names}
		// ValidPath
		want := refValid(names)
		var got int
		if p := catch(func() { got = p9p.ValidPath(names) }); p != "" {
			viol("validpath-panic", fmt.Sprintf("ValidPath(%q) panicked: %s", names, p), rp)
		} else if got != want {
			viol("validpath", fmt.Sprintf("ValidPath(%q) = %d, want %d", names, got, want), rp)
		}
		local[fmt.Sprintf("valid/%d", want)]++
		// NormalizePath
		steps, ok := refNormalize(names)
		var ns []string
		var bsp int
		if p := catch(func() { ns, bsp = p9p.NormalizePath(names) }); p != "" {
			viol("normalize-panic", fmt.Sprintf("NormalizePath(%q) panicked: %s", names, p), rp)
		} else if !ok {
			if bsp >= 0 {
				viol("normalize-accepts-separator", fmt.Sprintf("NormalizePath(%q) = %q, %d; a name with a separator must be rejected", names, ns, bsp), rp)
			}
		} else {
			lead := 0
			for lead < len(steps) && steps[lead] == ".." {
				lead++
			}
			if bsp != lead || strings.Join(ns, "\x00") != strings.Join(steps, "\x00") {
				viol("normalize", fmt.Sprintf("NormalizePath(%q) = %q, %d; stepwise resolution gives %q, %d", names, ns, bsp, steps, lead), rp)
			} else {
				ns2, bsp2 := p9p.NormalizePath(ns)
				if bsp2 != bsp || strings.Join(ns2, "\x00") != strings.Join(ns, "\x00") {
					viol("normalize-idempotent", fmt.Sprintf("NormalizePath is not idempotent on %q: %q,%d then %q,%d", names, ns, bsp, ns2, bsp2), rp)
				}
				deep := "/q1/q2/q3/q4/q5/q6"
				r1, _ := refResolve(deep, names)
				r2, _ := refResolve(deep, ns)
				if r1 != r2 {
					viol("normalize-resolution", fmt.Sprintf("from %s, %q resolves to %s but its normal form %q to %s", deep, names, r1, ns, r2), rp)
				}
			}
			local[fmt.Sprintf("normalize/lead%d/len%d", lead, len(steps))]++
		}
		// WalkName from every directory
		for _, dir := range dirs {
			depth := strings.Count(dir, "/")
			if dir == "/" {
				depth = 0
			}
			wantOK := want >= 0 && want <= depth
			var res string
			var err error
			if p := catch(func() { res, err = p9p.WalkName(dir, names...) }); p != "" {
				viol("walkname-panic", fmt.Sprintf("WalkName(%q, %q) panicked: %s", dir, names, p), rp)
				continue
			}
			switch {
			case wantOK && err != nil:
				viol("walkname-rejects", fmt.Sprintf("WalkName(%q, %q) rejected a safe list: %v", dir, names, err), rp)
			case !wantOK && err == nil:
				viol("walkname-accepts", fmt.Sprintf("WalkName(%q, %q) = %q accepted; the list is invalid or climbs above the root", dir, names, res), rp)
			case wantOK:
				exp, _ := refResolve(dir, names)
				if res != exp || !canonical(res) {
					viol("walkname-result", fmt.Sprintf("WalkName(%q, %q) = %q, stepwise resolution gives %q", dir, names, res, exp), rp)
				}
			}
			local[fmt.Sprintf("walkname/ok=%v/depth%d", wantOK, depth)]++
		}
		// ToWalk on the joined path, relative and absolute
		for _, abs := range []bool{false, true} {
			p := strings.Join(names, "/")
			if abs {
				p = "/" + p
			}
			isAbsWant := strings.HasPrefix(p, "/")
			els := strings.Split(strings.Trim(p, "/"), "/")
			st, ok := refNormalize(els)
			lead := 0
			for ok && lead < len(st) && st[lead] == ".." {
				lead++
			}
			wantErr := !ok || (isAbsWant && lead != 0)
			var isAbs bool
			var got []string
			var err error
			if pn := catch(func() { isAbs, got, err = p9p.ToWalk(nil, p) }); pn != "" {
				viol("towalk-panic", fmt.Sprintf("ToWalk(%q) panicked: %s", p, pn), rp)
				continue
			}
			switch {
			case wantErr != (err != nil):
				viol("towalk-accept", fmt.Sprintf("ToWalk(%q) err=%v, want error=%v", p, err, wantErr), rp)
			case !wantErr && (isAbs != isAbsWant || strings.Join(got, "\x00") != strings.Join(st, "\x00")):
				viol("towalk-result", fmt.Sprintf("ToWalk(%q) = abs %v steps %q, want abs %v steps %q", p, isAbs, got, isAbsWant, st), rp)
			}
			local[fmt.Sprintf("towalk/abs=%v/err=%v", isAbsWant, wantErr)]++
		}
	}
	for L := 0; L <= maxLen; L++ {
		dims := make([]int, L)
		for i := range dims {
			dims[i] = len(c16Names)
		}
		if L == 0 {
			dims = []int{1}
		}
		total, complete := Cross(dims, runtime.NumCPU(), c.Expired, func(idx []int) {
			names := make([]string, L)
			for i := 0; i < L; i++ {
				names[i] = c16Names[idx[i]]
			}
			local := map[string]int64{}
			checkList(names, dirs, local)
			mu.Lock()
			for k, v := range local {
				classes[k] += v
			}
			mu.Unlock()
		})
		c.Count(total*int64(3+len(dirs)), 0, 0, 0)
		if !complete {
			c.NotExhaustive(fmt.Sprintf("time budget reached at list length %d", L))
			break
		}
	}
	// Deep directories and long lists: quantities the cross product above
	// cannot reach. Directories of depth 4..12 and 16, 17, 33 (plus the
	// shallow ones); lists of k leading ".." followed by j ordinary names
	// (k, j <= 18), each also with one special name put at every position;
	// names of every length 1..70 and around 255 / 4096, multi-byte names.
	{
		deepDirs := []string{"/", "/a", "/a/b"}
		for _, d := range []int{3, 4, 5, 6, 7, 8, 9, 10, 11, 12, 16, 17, 33} {
			var el []string
			for i := 0; i < d; i++ {
				el = append(el, []string{"a", "b", "cc"}[i%3])
			}
			deepDirs = append(deepDirs, "/"+strings.Join(el, "/"))
		}
		specials := []string{"..", ".", "", "a/b", "a\\b", "...", "..a", "é", "．．"}
		var lists [][]string
		for k := 0; k <= 18; k++ {
			for j := 0; j <= 18; j++ {
				base := make([]string, 0, k+j+1)
				for i := 0; i < k; i++ {
					base = append(base, "..")
				}
				for i := 0; i < j; i++ {
					base = append(base, []string{"a", "b", "cc", "d.e"}[i%4])
				}
				lists = append(lists, base)
				if (k > 6 && k != 16 && k != 17) || (j > 6 && j != 16 && j != 17) {
					continue
				}
				for pos := 0; pos <= len(base); pos++ {
					for _, sp := range specials {
						l := append(append(append([]string{}, base[:pos]...), sp), base[pos:]...)
						lists = append(lists, l)
					}
				}
			}
		}
		for n := 1; n <= 70; n++ {
			lists = append(lists, []string{strings.Repeat("n", n)}, []string{"..", strings.Repeat(".", n)}, []string{"a", strings.Repeat("x", n), "b"})
		}
		for _, n := range []int{127, 128, 254, 255, 256, 257, 4095, 4096, 4097, 65535, 65536} {
			lists = append(lists, []string{strings.Repeat("n", n)}, []string{"..", strings.Repeat("m", n), "a"})
		}
		var wg sync.WaitGroup
		nw := runtime.NumCPU()
		for w := 0; w < nw; w++ {
			wg.Add(1)
			go func(w int) {
				defer wg.Done()
				local := map[string]int64{}
				for i := w; i < len(lists); i += nw {
					checkList(lists[i], deepDirs, local)
				}
				mu.Lock()
				for k, v := range local {
					classes["deep:"+k] += v
				}
				mu.Unlock()
			}(w)
		}
		wg.Wait()
		c.Count(int64(len(lists))*int64(3+len(deepDirs)), 0, 0, 0)
	}
	// CreateName: every directory x every name (plus long and NUL names)
	names := append(append([]string{}, c16Names...), "x\x00y", strings.Repeat("n", 300), "a/..", "../a", "\\")
	for _, dir := range dirs {
		for _, n := range names {
			wantOK := n != "" && n != "." && n != ".." && !strings.ContainsAny(n, "/\\")
			var res string
			var err error
			if p := catch(func() { res, err = p9p.CreateName(dir, n) }); p != "" {
				viol("createname-panic", fmt.Sprintf("CreateName(%q,%q) panicked: %s", dir, n, p), nil)
				continue
			}
			exp := strings.TrimSuffix(dir, "/") + "/" + n
			if wantOK != (err == nil) || (wantOK && (res != exp || !canonical(res))) {
				viol("createname", fmt.Sprintf("CreateName(%q,%q) = %q, %v; want ok=%v %q", dir, n, res, err, wantOK, exp), map[string]any{"dir": dir, "name": n})
			}
			classes[fmt.Sprintf("createname/ok=%v", wantOK)]++
			c.Count(1, 0, 0, 0)
		}
	}
	for k, v := range classes {
		c.Outcome(k, v)
	}
	c.Sample(map[string]any{"dirs": dirs, "names": c16Names, "max_list_length": maxLen})
}
