package props

import (
	"bytes"
	"context"
	"encoding/binary"
	"errors"
	"fmt"
	"net"
	"runtime"
	"sync"
	"sync/atomic"
	"time"

	p9p "github.com/frobnitzem/go-p9p"
	"github.com/frobnitzem/go-p9p/zzverif/core"
	"github.com/frobnitzem/go-p9p/zzverif/refcodec"
)

func init() { Registry["C02"] = c02 }

// capConn records everything written to it; reads see EOF.
type capConn struct {
	buf bytes.Buffer
	// noDeadlines: a connection that cannot do deadlines (a pipe to a
	// subprocess, an ssh channel): Set*Deadline report an error, I/O works
	noDeadlines bool
}

var errNoDeadline = errors.New("deadlines not supported")

func (c *capConn) Read(p []byte) (int, error)        { return 0, net.ErrClosed }
func (c *capConn) Write(p []byte) (int, error)       { return c.buf.Write(p) }
func (c *capConn) Close() error                      { return nil }
func (c *capConn) LocalAddr() net.Addr               { return nil }
func (c *capConn) RemoteAddr() net.Addr              { return nil }
func (c *capConn) SetDeadline(t time.Time) error     { return nil }
func (c *capConn) SetReadDeadline(t time.Time) error { return nil }
func (c *capConn) SetWriteDeadline(t time.Time) error {
	if c.noDeadlines {
		return errNoDeadline
	}
	return nil
}

var cancelledCtx = func() context.Context {
	ctx, cancel := context.WithCancel(context.Background())
	cancel()
	return ctx
}()

var c02Chans int64

type c02Chan struct {
	conn *capConn
	ch   p9p.Channel
}

// newC02Chan builds a channel whose msize is m, either directly or the way
// sessions do (created with the default msize, then lowered).
func newC02Chan(m int, viaSet bool) *c02Chan {
	// every second channel sits on a connection without deadline support
	c := &c02Chan{conn: &capConn{noDeadlines: atomic.AddInt64(&c02Chans, 1)%2 == 0}}
	if viaSet && m <= p9p.DefaultMSize {
		c.ch = p9p.NewChannel(c.conn, p9p.DefaultMSize)
		c.ch.SetMSize(m)
	} else {
		c.ch = p9p.NewChannel(c.conn, m)
	}
	return c
}

// c02Write performs one WriteFcall and judges it. It returns a violation
// signature and message, or "".
func c02Write(cc *c02Chan, m int, ctx context.Context, tag p9p.Tag, msg p9p.Message) (cls, sig, text string) {
	full := refcodec.EncodeFrame(tag, msg)
	F := len(full)
	var keep []byte
	if tw, ok := msg.(p9p.MessageTwrite); ok {
		keep = append([]byte(nil), tw.Data...)
	}
	fc := &p9p.Fcall{Type: msg.Type(), Tag: tag, Message: msg}
	cc.conn.buf.Reset()
	var err error
	if p := catch(func() { err = cc.ch.WriteFcall(ctx, fc) }); p != "" {
		return "panic", "panic", fmt.Sprintf("WriteFcall(%s) with msize %d panicked: %s", Brief(fc), m, p)
	}
	out := cc.conn.buf.Bytes()
	kind := fmt.Sprintf("%T", msg)
	if tw, ok := msg.(p9p.MessageTwrite); ok && !bytes.Equal(tw.Data, keep) {
		return "x", "caller-buffer-modified", fmt.Sprintf("WriteFcall modified the caller's Twrite data (msize %d, %d data bytes)", m, len(keep))
	}
	if ctx.Err() != nil {
		if len(out) != 0 || err == nil {
			return "x", "cancelled-write", fmt.Sprintf("WriteFcall with a cancelled context wrote %d bytes, err=%v", len(out), err)
		}
		return "cancelled", "", ""
	}
	if len(out) == 0 {
		if err == nil {
			return "x", "nothing-no-error:" + kind, fmt.Sprintf("WriteFcall(%s) msize %d wrote nothing and returned no error", Brief(fc), m)
		}
		switch msg.(type) {
		case p9p.MessageTwrite:
			if F-len(keep) <= m {
				return "x", "twrite-not-truncated", fmt.Sprintf("Twrite with %d data bytes, msize %d: refused (%v) although its header fits; it must be shortened to exactly msize", len(keep), m, err)
			}
		case p9p.MessageTread:
			return "x", "tread-refused", fmt.Sprintf("Tread (23 bytes) refused with msize %d: %v", m, err)
		default:
			if F <= m {
				return "x", "refused-fitting:" + kind, fmt.Sprintf("%s is %d bytes, msize %d, yet refused: %v", kind, F, m, err)
			}
		}
		if ov := p9p.Overflow(err); ov != F-m {
			return "x", "overflow-amount:" + kind, fmt.Sprintf("%s of %d bytes with msize %d: error %q reports an overflow of %d, the message is too long by %d", kind, F, m, err, ov, F-m)
		}
		return "refused", "", ""
	}
	// something was written: it must be exactly one frame within msize
	if len(out) < 4 || int(binary.LittleEndian.Uint32(out)) != len(out) {
		return "x", "bad-frame:" + kind, fmt.Sprintf("%s msize %d: %d bytes written, length prefix says %d", kind, m, len(out), binary.LittleEndian.Uint32(append(out, 0, 0, 0, 0)))
	}
	if len(out) > m {
		return "x", "frame-exceeds-msize:" + kind, fmt.Sprintf("%s: a frame of %d bytes was written with msize %d", kind, len(out), m)
	}
	if err != nil {
		return "x", "frame-and-error:" + kind, fmt.Sprintf("%s msize %d: a frame was written but an error returned: %v", kind, m, err)
	}
	switch v := msg.(type) {
	case p9p.MessageTwrite:
		if F <= m {
			if !bytes.Equal(out, full) {
				return "x", "twrite-altered", fmt.Sprintf("Twrite that fits (F=%d, msize %d) was altered on the wire", F, m)
			}
			return "whole", "", ""
		}
		if len(out) != m {
			return "x", "twrite-truncation-size", fmt.Sprintf("Twrite too long (F=%d): frame is %d bytes, must be exactly msize %d", F, len(out), m)
		}
		want := refcodec.EncodeFrame(tag, p9p.MessageTwrite{Fid: v.Fid, Offset: v.Offset, Data: keep[:len(keep)-(F-m)]})
		if !bytes.Equal(out, want) {
			return "x", "twrite-truncation-content", fmt.Sprintf("truncated Twrite (msize %d) does not carry a prefix of the caller's data with the other fields unchanged", m)
		}
		return "truncated", "", ""
	case p9p.MessageTread:
		got, _, derr := refcodec.Decode(out[4:])
		if derr != nil {
			return "x", "tread-undecodable", derr.Error()
		}
		tr, ok := got.Message.(p9p.MessageTread)
		if !ok || tr.Fid != v.Fid || tr.Offset != v.Offset || got.Tag != tag {
			return "x", "tread-altered", fmt.Sprintf("Tread fields other than count changed: sent %+v wrote %s", v, Brief(got))
		}
		fits := uint64(v.Count)+11 <= uint64(m)
		switch {
		case fits && tr.Count != v.Count:
			return "x", "tread-count-changed", fmt.Sprintf("Tread count %d fits msize %d (11+count) but was rewritten to %d", v.Count, m, tr.Count)
		case !fits && (uint64(tr.Count)+11 > uint64(m) || tr.Count > v.Count):
			return "x", "tread-count-not-lowered", fmt.Sprintf("Tread count %d with msize %d went out as %d: the largest reply (11+count) does not fit", v.Count, m, tr.Count)
		}
		if fits {
			return "whole", "", ""
		}
		return "lowered", "", ""
	default:
		if !bytes.Equal(out, full) {
			return "x", "altered:" + kind, fmt.Sprintf("%s went out modified (msize %d)", kind, m)
		}
		return "whole", "", ""
	}
}

func c02(c *core.Ctx) {
	c.SetLevel("exploration")
	c.Budget(80*time.Second, 12*time.Minute)
	c.SetRule("messages: the small cross-product lattice of all 27 kinds, Twrite with 0..70000 data bytes, Tread with counts around msize-11 and up to 2^32-1; msize: every value within +-40 of the message's own frame size plus {24,25,2^20} (thorough: every msize in [24,2^20] for Tread/Twrite/Tclunk); live and cancelled context; channel built directly and via SetMSize; plus 3-write histories on one channel. Oracle on the bytes a capturing conn received: nothing + Overflow(err)==F-m (or ctx error), or exactly one frame with prefix==length<=msize; Twrite truncated to exactly msize with a data prefix, caller's buffer untouched; Tread count unchanged when 11+count<=msize else lowered to fit; everything else byte-identical to the reference encoding. distinct = (kind, outcome class)")
	c.Assume("refcodec is the wire-format reference", "msize below 24 is outside the statement")
	lats := lattices(2, 3, 1)
	if !c.Quick() {
		lats = lattices(3, 4, 2)
	}
	type tmsg struct {
		name string
		m    p9p.Message
	}
	var msgs []tmsg
	for _, lt := range lats {
		lt := lt
		Cross(lt.dims, 1, nil, func(idx []int) {
			m := lt.mk(idx)
			if refcodec.Representable(m) {
				msgs = append(msgs, tmsg{lt.name, m})
			}
		})
	}
	for _, d := range []int{0, 1, 2, 100, 4096, 70000} {
		msgs = append(msgs, tmsg{"Twrite", p9p.MessageTwrite{Fid: 3, Offset: 1 << 40, Data: pat(d)}})
	}
	var mu sync.Mutex
	classes := map[string]int64{}
	var total int64
	report := func(sig, text string, rp map[string]any) { c.Violation("C02:"+sig, text, rp) }
	window := func(F int) []int {
		set := map[int]bool{24: true, 25: true, 1 << 20: true}
		for m := F - 40; m <= F+40; m++ {
			if m >= 24 && m <= 1<<20 {
				set[m] = true
			}
		}
		var out []int
		for m := range set {
			out = append(out, m)
		}
		return out
	}
	// (1) every message x msize window x ctx x construction
	var wg sync.WaitGroup
	jobs := make(chan int)
	for w := 0; w < runtime.NumCPU(); w++ {
		wg.Add(1)
		go func() {
			defer wg.Done()
			local := map[string]int64{}
			var n int64
			var shared *c02Chan
			for i := range jobs {
				tm := msgs[i]
				F := len(refcodec.EncodeFrame(1, tm.m))
				for _, m := range window(F) {
					for _, via := range []bool{false, true} {
						if m > p9p.DefaultMSize && via {
							continue
						}
						var cc *c02Chan
						if via {
							// the way sessions do it: one channel, msize lowered
							if shared == nil {
								shared = newC02Chan(p9p.DefaultMSize, false)
							}
							shared.ch.SetMSize(m)
							cc = shared
						} else {
							// built directly with this msize: around the frame size only
							if d := m - F; (d < -2 || d > 2) && m != 24 && m <= p9p.DefaultMSize {
								continue
							}
							cc = newC02Chan(m, false)
						}
						for _, ctx := range []context.Context{context.Background(), cancelledCtx} {
							cls, sig, text := c02Write(cc, m, ctx, 0x0102, tm.m)
							n++
							local[tm.name+"/"+cls]++
							if sig != "" {
								report(sig, text, map[string]any{"message": Brief(tm.m), "msize": m, "via_setmsize": via, "cancelled": ctx.Err() != nil})
							}
						}
					}
				}
				// Tread counts relative to this msize family
			}
			mu.Lock()
			for k, v := range local {
				classes[k] += v
			}
			total += n
			mu.Unlock()
		}()
	}
	for i := range msgs {
		if c.Expired() {
			c.NotExhaustive("time budget in the message sweep")
			break
		}
		jobs <- i
	}
	close(jobs)
	wg.Wait()
	// (2) Tread counts x msize
	msizes := []int{24, 25, 26, 34, 35, 36, 100, 4096, 65535, 65536, 65537, 1 << 20}
	for _, m := range msizes {
		cc := newC02Chan(m, false)
		cs := newC02Chan(m, true)
		counts := []uint32{0, 1, uint32(m - 12), uint32(m - 11), uint32(m - 10), uint32(2 * m), 1 << 31, 0x7FFFFFFF}
		for k := uint32(0); k <= 12; k++ {
			counts = append(counts, 0xFFFFFFFF-k)
		}
		for _, cnt := range counts {
			for _, ch := range []*c02Chan{cc, cs} {
				cls, sig, text := c02Write(ch, m, context.Background(), 7, p9p.MessageTread{Fid: 9, Offset: ^uint64(0), Count: cnt})
				total++
				classes["Tread-counts/"+cls]++
				if sig != "" {
					report(sig, text, map[string]any{"count": cnt, "msize": m})
				}
			}
		}
	}
	// (3) thorough: every msize for Tread / Twrite / Tclunk, channel reused via SetMSize
	if !c.Quick() {
		var wg2 sync.WaitGroup
		nshard := runtime.NumCPU()
		for s := 0; s < nshard; s++ {
			wg2.Add(1)
			go func(s int) {
				defer wg2.Done()
				local := map[string]int64{}
				var n int64
				big := newC02Chan(1<<20, false)
				probe := []p9p.Message{
					p9p.MessageTclunk{Fid: 1},
					p9p.MessageTread{Fid: 1, Offset: 5, Count: 70000},
					p9p.MessageTread{Fid: 1, Offset: 5, Count: 0xFFFFFFF0},
					p9p.MessageTwrite{Fid: 1, Offset: 5, Data: pat(70000)},
					p9p.MessageTwrite{Fid: 1, Offset: 5, Data: pat(10)},
					p9p.MessageRread{Data: pat(5000)},
				}
				for m := 24 + s; m <= 1<<20; m += nshard {
					if m%4096 < nshard && c.Expired() {
						break
					}
					big.ch.SetMSize(m)
					for _, pm := range probe {
						cls, sig, text := c02Write(big, m, context.Background(), 2, pm)
						n++
						local[fmt.Sprintf("sweep/%T/%s", pm, cls)]++
						if sig != "" {
							report(sig, text, map[string]any{"message": Brief(pm), "msize": m, "sweep": true})
						}
					}
				}
				mu.Lock()
				for k, v := range local {
					classes[k] += v
				}
				total += n
				mu.Unlock()
			}(s)
		}
		wg2.Wait()
		if c.Expired() {
			c.NotExhaustive("time budget in the msize sweep")
		}
	}
	// (4) histories of three writes on one channel: refusal / cancellation /
	// msize change must leave no residue for the next write
	hmsgs := []p9p.Message{p9p.MessageTclunk{Fid: 1}, p9p.MessageRerror{Ename: string(pat(60))}, p9p.MessageTwrite{Fid: 2, Data: pat(50)}, p9p.MessageTread{Fid: 3, Count: 500}}
	for _, m := range []int{24, 40, 64, 100} {
		for a := range hmsgs {
			for b := range hmsgs {
				for c3 := range hmsgs {
					for mode := 0; mode < 3; mode++ {
						cc := newC02Chan(m, mode == 1)
						seq := []int{a, b, c3}
						for step, mi := range seq {
							ctx := context.Background()
							if mode == 2 && step == 1 {
								ctx = cancelledCtx
							}
							mm := m
							if mode == 1 && step == 2 {
								mm = m + 16
								cc.ch.SetMSize(mm)
							}
							cls, sig, text := c02Write(cc, mm, ctx, p9p.Tag(step+1), hmsgs[mi])
							total++
							classes["history/"+cls]++
							if sig != "" {
								report("history:"+sig, text+fmt.Sprintf(" (write %d of history %v, msize %d)", step+1, seq, mm), map[string]any{"history": seq, "msize": mm, "mode": mode})
							}
						}
					}
				}
			}
		}
	}
	c.Count(total, 0, 0, 0)
	for k, v := range classes {
		c.Outcome(k, v)
	}
	c.Sample(map[string]any{"message": "Twrite{Data: 100 bytes}", "frame_size": 123, "msize_window": "83..163 plus 24, 25, 1048576"})
	c.Set("messages", len(msgs))
}
