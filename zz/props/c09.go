package props

import (
	"context"
	"errors"
	"fmt"
	"io"
	"reflect"
	"strings"
	"time"

	p9p "github.com/frobnitzem/go-p9p"
	"github.com/frobnitzem/go-p9p/zzverif/core"
	"github.com/frobnitzem/go-p9p/zzverif/explore"
	"github.com/frobnitzem/go-p9p/zzverif/refcodec"
	"github.com/frobnitzem/go-p9p/zzverif/vconn"
	"github.com/frobnitzem/go-p9p/zzverif/vsched"
)

func init() {
	Registry["C09"] = c09
	ScenarioFns["C09"] = c09Scenarios
}

// recCall is one call as the served session S saw it, and what S answers.
type recCall struct {
	M      string
	Fid    p9p.Fid
	Fid2   p9p.Fid
	S1, S2 string
	Names  []string
	Off    int64
	Len    int // len(p) for read; len(data) for write
	Data   []byte
	Perm   uint32
	Mode   p9p.Flag
	Dir    p9p.Dir
}

type recResult struct {
	Err  error
	Qid  p9p.Qid
	Qids []p9p.Qid
	N    int // read: bytes produced (<= len(p)); write: count returned
	IOU  uint32
	Dir  p9p.Dir
}

// recSession is the served session S: it records every call and answers
// with the result scripted for it.
type recSession struct {
	calls []recCall
	next  recResult
	msize int
}

func (s *recSession) rec(c recCall) recResult { s.calls = append(s.calls, c); return s.next }

func (s *recSession) Auth(ctx context.Context, afid p9p.Fid, uname, aname string) (p9p.Qid, error) {
	r := s.rec(recCall{M: "auth", Fid: afid, S1: uname, S2: aname})
	return r.Qid, r.Err
}
func (s *recSession) Attach(ctx context.Context, fid, afid p9p.Fid, uname, aname string) (p9p.Qid, error) {
	r := s.rec(recCall{M: "attach", Fid: fid, Fid2: afid, S1: uname, S2: aname})
	return r.Qid, r.Err
}
func (s *recSession) Clunk(ctx context.Context, fid p9p.Fid) error {
	return s.rec(recCall{M: "clunk", Fid: fid}).Err
}
func (s *recSession) Remove(ctx context.Context, fid p9p.Fid) error {
	return s.rec(recCall{M: "remove", Fid: fid}).Err
}
func (s *recSession) Walk(ctx context.Context, fid, newfid p9p.Fid, names ...string) ([]p9p.Qid, error) {
	r := s.rec(recCall{M: "walk", Fid: fid, Fid2: newfid, Names: append([]string(nil), names...)})
	return r.Qids, r.Err
}
func (s *recSession) Read(ctx context.Context, fid p9p.Fid, p []byte, off int64) (int, error) {
	r := s.rec(recCall{M: "read", Fid: fid, Off: off, Len: len(p)})
	n := r.N
	if n > len(p) {
		n = len(p)
	}
	copy(p, pat(n))
	return n, r.Err
}
func (s *recSession) Write(ctx context.Context, fid p9p.Fid, p []byte, off int64) (int, error) {
	r := s.rec(recCall{M: "write", Fid: fid, Off: off, Len: len(p), Data: append([]byte(nil), p...)})
	n := r.N
	if n < 0 {
		n = len(p) + n + 1 // -1: everything, -2: one less
	}
	if n < 0 {
		n = 0
	}
	return n, r.Err
}
func (s *recSession) Open(ctx context.Context, fid p9p.Fid, mode p9p.Flag) (p9p.Qid, uint32, error) {
	r := s.rec(recCall{M: "open", Fid: fid, Mode: mode})
	return r.Qid, r.IOU, r.Err
}
func (s *recSession) Create(ctx context.Context, fid p9p.Fid, name string, perm uint32, mode p9p.Flag) (p9p.Qid, uint32, error) {
	r := s.rec(recCall{M: "create", Fid: fid, S1: name, Perm: perm, Mode: mode})
	return r.Qid, r.IOU, r.Err
}
func (s *recSession) Stat(ctx context.Context, fid p9p.Fid) (p9p.Dir, error) {
	r := s.rec(recCall{M: "stat", Fid: fid})
	return r.Dir, r.Err
}
func (s *recSession) WStat(ctx context.Context, fid p9p.Fid, d p9p.Dir) error {
	return s.rec(recCall{M: "wstat", Fid: fid, Dir: d}).Err
}
func (s *recSession) Version() (int, string) { return s.msize, "9P2000" }
func (s *recSession) Stop(err error) error   { return err }

type c09State struct {
	problems []explore.Finding
	cases    int
	classes  map[string]int
	done     bool
	err      string
	msize    int
}

// served wires a real client session to a real server serving S, with the
// negotiated msize forced by rewriting the Tversion in flight (0: default).
func served(S p9p.Session, forceMsize int, sync bool) (client func() (p9p.Session, error), closeAll func()) {
	if forceMsize == 0 {
		// no rewriting needed: client and server share one pipe
		cli, srv := vconn.Pipe(sync)
		cli.Name, srv.Name = "cli", "srv"
		ctx := context.Background()
		vsched.Go("serve", func() { p9p.ServeConn(ctx, srv, p9p.SSession(S)) })
		return func() (p9p.Session, error) { return p9p.CSession(ctx, cli) }, func() { cli.Close() }
	}
	cliEnd, proxyC := vconn.Pipe(sync)
	proxyS, srvEnd := vconn.Pipe(sync)
	cliEnd.Name, proxyC.Name, proxyS.Name, srvEnd.Name = "cli", "proxyC", "proxyS", "srv"
	ctx := context.Background()
	vsched.Go("serve", func() { p9p.ServeConn(ctx, srvEnd, p9p.SSession(S)) })
	vsched.Go("proxy-up", func() {
		first := true
		for {
			f, err := proxyC.ReadFrame()
			if err != nil {
				proxyS.Close()
				return
			}
			if first && forceMsize > 0 {
				if fc, _, derr := refcodec.Decode(f[4:]); derr == nil {
					if tv, ok := fc.Message.(p9p.MessageTversion); ok {
						tv.MSize = uint32(forceMsize)
						f = refcodec.EncodeFrame(fc.Tag, tv)
					}
				}
			}
			first = false
			proxyS.Write(f)
		}
	})
	vsched.Go("proxy-down", func() {
		for {
			f, err := proxyS.ReadFrame()
			if err != nil {
				proxyC.Close()
				return
			}
			proxyC.Write(f)
		}
	})
	return func() (p9p.Session, error) { return p9p.CSession(ctx, cliEnd) }, func() { cliEnd.Close() }
}

func enameOf(err error) string {
	if err == nil {
		return ""
	}
	var re p9p.MessageRerror
	if errors.As(err, &re) {
		return re.Ename
	}
	var rp *p9p.MessageRerror
	if errors.As(err, &rp) && rp != nil {
		return rp.Ename
	}
	return err.Error()
}

var c09Errs = []error{nil, p9p.MessageRerror{Ename: "file not found"}, errors.New("plain failure"), p9p.ErrUnknownfid}

func c09SeqScenario(name string, forceMsize int) *explore.Scenario {
	return &explore.Scenario{
		Name:     name,
		MaxSteps: 50_000_000,
		Body: func() any {
			st := &c09State{classes: map[string]int{}}
			S := &recSession{msize: p9p.DefaultMSize}
			connect, closeAll := served(S, forceMsize, false)
			vsched.Go("client", func() {
				defer func() { st.done = true }()
				c, err := connect()
				if err != nil {
					st.err = "CSession: " + err.Error()
					return
				}
				msize, _ := c.Version()
				st.msize = msize
				ctx := context.Background()
				bad := func(sig, format string, a ...any) {
					if len(st.problems) < 30 {
						st.problems = append(st.problems, explore.Finding{Sig: "C09:" + sig, Msg: fmt.Sprintf(format, a...) + fmt.Sprintf(" (negotiated msize %d)", msize)})
					}
				}
				// one case: script S, call, compare what S saw and what came back
				run := func(method string, want recCall, res recResult, call func() (recResult, error), sent bool) {
					st.cases++
					if sent && method != "read" && method != "write" {
						// a request whose frame exceeds msize cannot be sent at all
						if sz := c09ReqSize(want); sz > msize {
							sent = false
						}
						// (replies that cannot fit are kept out of the lattice: see C06's proviso)
						if res.Err != nil && 4+7+2+len(enameOf(res.Err)) > msize {
							return
						}
					}
					S.next = res
					before := len(S.calls)
					var got recResult
					var gerr error
					if p := catch(func() { got, gerr = call() }); p != "" {
						bad("panic:"+method, "%s panicked: %s", method, p)
						return
					}
					if !sent {
						if len(S.calls) != before {
							bad("sent-anyway:"+method, "%s must be refused locally but reached S", method)
						}
						st.classes[method+"/local-refusal"]++
						return
					}
					if len(S.calls) != before+1 {
						bad("call-count:"+method, "%s reached S %d times", method, len(S.calls)-before)
						return
					}
					saw := S.calls[len(S.calls)-1]
					saw.Dir, want.Dir = normDir(saw.Dir), normDir(want.Dir)
					if len(saw.Names) == 0 {
						saw.Names = nil
					}
					if len(want.Names) == 0 {
						want.Names = nil
					}
					if len(saw.Data) == 0 {
						saw.Data = nil
					}
					if len(want.Data) == 0 {
						want.Data = nil
					}
					if !reflect.DeepEqual(saw, want) {
						bad("args:"+method, "caller passed %s, S received %s", Brief(want), Brief(saw))
					}
					cls := method + "/ok"
					if res.Err != nil {
						cls = method + "/err"
						if gerr == nil {
							bad("error-lost:"+method, "S returned error %q, caller got success", res.Err)
						} else if enameOf(gerr) != enameOf(res.Err) {
							bad("error-text:"+method, "S returned error %q, caller got %q", enameOf(res.Err), enameOf(gerr))
						}
					} else {
						exp := res
						expErr := error(nil)
						switch method {
						case "read":
							if exp.N > want.Len {
								exp.N = want.Len
							}
							if exp.N == 0 {
								expErr = io.EOF
							}
						case "write":
							n := res.N
							if n < 0 {
								n = want.Len + n + 1
							}
							if n < 0 {
								n = 0
							}
							exp.N = n
						}
						if method == "write" && got.N < got.IOUlen() {
							expErr = io.ErrShortWrite
						}
						_ = expErr
						got.Dir, exp.Dir = normDir(got.Dir), normDir(exp.Dir)
						if len(got.Qids) == 0 {
							got.Qids = nil
						}
						if len(exp.Qids) == 0 {
							exp.Qids = nil
						}
						exp.Err, got.Err = nil, nil
						if !reflect.DeepEqual(got, exp) {
							bad("result:"+method, "S returned %s, caller got %s (err %v)", Brief(exp), Brief(got), gerr)
						}
						if method == "read" && exp.N == 0 {
							if gerr != io.EOF {
								bad("result:read-eof", "zero-length read must surface as io.EOF, got %v", gerr)
							}
						} else if method != "write" && gerr != nil {
							bad("spurious-error:"+method, "S succeeded, caller got error %v", gerr)
						}
					}
					st.classes[cls]++
				}
				fids := []p9p.Fid{0, 1, 0xFFFFFFFE, p9p.NOFID}
				strs := []string{"", "glenda", "\xff\xfe", strings.Repeat("L", 300)}
				qids := []p9p.Qid{{}, {Type: 0x80, Version: 0xFFFFFFFF, Path: ^uint64(0)}, {Type: 1, Version: 2, Path: 3}}
				for ei, e := range c09Errs {
					for qi, q := range qids {
						for fi, f := range fids {
							f2 := fids[(fi+1)%len(fids)]
							u, a := strs[(fi+qi)%len(strs)], strs[(fi+qi+1)%len(strs)]
							run("auth", recCall{M: "auth", Fid: f, S1: u, S2: a}, recResult{Err: e, Qid: q}, func() (recResult, error) {
								q, err := c.Auth(ctx, f, u, a)
								return recResult{Qid: q}, err
							}, true)
							run("attach", recCall{M: "attach", Fid: f, Fid2: f2, S1: u, S2: a}, recResult{Err: e, Qid: q}, func() (recResult, error) {
								q, err := c.Attach(ctx, f, f2, u, a)
								return recResult{Qid: q}, err
							}, true)
							run("clunk", recCall{M: "clunk", Fid: f}, recResult{Err: e}, func() (recResult, error) { return recResult{}, c.Clunk(ctx, f) }, true)
							run("remove", recCall{M: "remove", Fid: f}, recResult{Err: e}, func() (recResult, error) { return recResult{}, c.Remove(ctx, f) }, true)
						}
					}
					for fi, f := range fids {
						q := qids[(fi+ei)%len(qids)]
						for _, mode := range []p9p.Flag{0, 1, 2, 3, 0x10, 0x42, 0xFF} {
							for _, iou := range []uint32{0, 8192, 0xFFFFFFFF} {
								f, mode, iou := f, mode, iou
								run("open", recCall{M: "open", Fid: f, Mode: mode}, recResult{Err: e, Qid: q, IOU: iou}, func() (recResult, error) {
									q, io, err := c.Open(ctx, f, mode)
									return recResult{Qid: q, IOU: io}, err
								}, true)
							}
							for pi, perm := range []uint32{0, 0644, p9p.DMDIR | 0755, 0xFFFFFFFF} {
								nm := strs[(int(mode)+pi)%len(strs)]
								f, mode, perm := f, mode, perm
								run("create", recCall{M: "create", Fid: f, S1: nm, Perm: perm, Mode: mode}, recResult{Err: e, Qid: q, IOU: 7}, func() (recResult, error) {
									q, io, err := c.Create(ctx, f, nm, perm, mode)
									return recResult{Qid: q, IOU: io}, err
								}, true)
							}
						}
					}
					// walk
					nameLists := [][]string{nil, {"a"}, {"a", "b"}, nameList(16, "n"), nameList(17, "n"), {"", "\xff", strings.Repeat("w", 200)}}
					for _, nl := range nameLists {
						for _, ql := range [][]p9p.Qid{nil, qids[:1], qids, qidList(16)} {
							nl, ql := nl, ql
							run("walk", recCall{M: "walk", Fid: 5, Fid2: 6, Names: nl}, recResult{Err: e, Qids: ql}, func() (recResult, error) {
								q, err := c.Walk(ctx, 5, 6, nl...)
								return recResult{Qids: q}, err
							}, len(nl) <= 16)
						}
					}
					// read / write around the clipping points
					offs := []int64{0, 1, 1 << 32, 1<<63 - 1, -1, -1 << 63}
					for _, off := range offs {
						for _, n := range []int{0, 1, 100, msize - 12, msize - 11, msize - 10, msize, 2 * msize} {
							for _, produced := range []int{0, 1, 1 << 30} {
								if n < 0 {
									continue
								}
								exp := n
								if exp > msize-11 {
									exp = msize - 11
								}
								off, n, produced := off, n, produced
								run("read", recCall{M: "read", Fid: 9, Off: off, Len: exp}, recResult{Err: e, N: produced}, func() (recResult, error) {
									buf := make([]byte, n)
									k, err := c.Read(ctx, 9, buf, off)
									if k > 0 && string(buf[:k]) != string(pat(k)) {
										return recResult{N: -999}, err
									}
									return recResult{N: k}, err
								}, true)
							}
						}
						for _, n := range []int{0, 1, 100, msize - 24, msize - 23, msize - 22, 2 * msize} {
							for _, ret := range []int{-1, -2, 0} {
								if n < 0 {
									continue
								}
								exp := n
								if exp > msize-23 {
									exp = msize - 23
								}
								off, n, ret := off, n, ret
								data := pat(n)
								run("write", recCall{M: "write", Fid: 9, Off: off, Len: exp, Data: data[:exp]}, recResult{Err: e, N: ret}, func() (recResult, error) {
									k, err := c.Write(ctx, 9, data, off)
									if err != nil && err != io.ErrShortWrite {
										return recResult{N: k}, err
									}
									if (k < len(data)) != (err == io.ErrShortWrite) {
										return recResult{N: -998}, nil
									}
									return recResult{N: k}, nil
								}, true)
							}
						}
					}
					// stat / wstat over a Dir lattice
					dl := lattices(2, 3, 1)[24]
					Cross(dl.dims, 1, nil, func(idx []int) {
						d := dl.mk(idx).(p9p.MessageRstat).Stat
						if !refcodec.Representable(p9p.MessageRstat{Stat: d}) || 61+len(d.Name)+len(d.UID)+len(d.GID)+len(d.MUID) > msize {
							return
						}
						run("stat", recCall{M: "stat", Fid: 3}, recResult{Err: e, Dir: d}, func() (recResult, error) {
							d, err := c.Stat(ctx, 3)
							return recResult{Dir: d}, err
						}, true)
						run("wstat", recCall{M: "wstat", Fid: 3, Dir: d}, recResult{Err: e}, func() (recResult, error) { return recResult{}, c.WStat(ctx, 3, d) }, true)
					})
				}
				closeAll()
			})
			return st
		},
		Check: func(state any, e *vsched.Exec) (string, []explore.Finding) {
			st := state.(*c09State)
			fs := st.problems
			if len(e.Panics) > 0 {
				fs = append(fs, explore.Finding{Sig: "C09:panic", Msg: panicList(e)})
			}
			if e.Horizon {
				fs = append(fs, explore.Finding{Sig: "C09:horizon", Msg: "step horizon reached"})
			}
			if !st.done {
				fs = append(fs, explore.Finding{Sig: "C09:stuck", Msg: fmt.Sprintf("the call sequence did not finish after %d calls; blocked: %s", st.cases, blockedList(e))})
			} else if st.err != "" {
				fs = append(fs, explore.Finding{Sig: "C09:connect", Msg: st.err})
			}
			return fmt.Sprintf("cases=%d", st.cases), fs
		},
	}
}

// c09ReqSize is the frame size of the request a call produces.
func c09ReqSize(w recCall) int {
	var m p9p.Message
	switch w.M {
	case "auth":
		m = p9p.MessageTauth{Afid: w.Fid, Uname: w.S1, Aname: w.S2}
	case "attach":
		m = p9p.MessageTattach{Fid: w.Fid, Afid: w.Fid2, Uname: w.S1, Aname: w.S2}
	case "walk":
		m = p9p.MessageTwalk{Fid: w.Fid, Newfid: w.Fid2, Wnames: w.Names}
	case "create":
		m = p9p.MessageTcreate{Fid: w.Fid, Name: w.S1, Perm: w.Perm, Mode: w.Mode}
	case "wstat":
		m = p9p.MessageTwstat{Fid: w.Fid, Stat: w.Dir}
	default:
		return 0
	}
	return len(refcodec.EncodeFrame(1, m))
}

// IOUlen is a helper so that recResult can be compared generically.
func (r recResult) IOUlen() int { return -1 }

// ---- concurrent callers ----

type c09Conc struct {
	calls []*callResult
	done  int
	n     int
}

// c09ConcScenario: n callers issue one Read each through a real client
// session to a real server serving a session that answers each with its own
// payload; sync or async connection.
func c09ConcScenario(n int, sync bool) *explore.Scenario { return c09ConcScenarioF(n, sync, false) }

// sameFid: every caller reads the SAME fid (at a different offset, which
// identifies the request), after one warm-up read on it.
func c09ConcScenarioF(n int, sync, sameFid bool) *explore.Scenario {
	name := fmt.Sprintf("concurrent/%d-callers/%s", n, map[bool]string{true: "sync-conn", false: "async-conn"}[sync])
	if sameFid {
		name += "/same-fid"
	}
	return &explore.Scenario{
		Name:  name,
		Cache: true,
		Body: func() any {
			st := &c09Conc{n: n}
			S := &echoSession{}
			connect, closeAll := served(S, 0, sync)
			vsched.Go("main", func() {
				c, err := connect()
				if err != nil {
					return
				}
				if sameFid {
					c.Read(context.Background(), 500, make([]byte, 16), 0) // the fid has been read before
				}
				for i := 0; i < n; i++ {
					res := &callResult{ID: 2 * (i + 1)}
					st.calls = append(st.calls, res)
					vsched.Go(fmt.Sprintf("caller%d", i), func() {
						buf := make([]byte, 16)
						fid := p9p.Fid(res.ID)
						if sameFid {
							fid = 500 // the offset identifies the request
						}
						k, err := c.Read(context.Background(), fid, buf, int64(res.ID))
						res.Returned = true
						res.Data = string(buf[:k])
						if err != nil {
							res.Err = err.Error()
						}
						st.done++
						vsched.Yield("caller.end", 77)
					})
				}
				vsched.WaitFor("all-done", 77, func() bool { return st.done == n })
				closeAll()
			})
			return st
		},
		Check: func(state any, e *vsched.Exec) (string, []explore.Finding) {
			st := state.(*c09Conc)
			var fs []explore.Finding
			stuck := 0
			for _, r := range st.calls {
				if !r.Returned {
					stuck++
				} else if !ownResult(r) {
					fs = append(fs, explore.Finding{Sig: "C09:concurrent-wrong-result", Msg: fmt.Sprintf("caller of request %d got data=%q err=%q", r.ID, r.Data, r.Err)})
				}
			}
			if len(e.Panics) > 0 {
				fs = append(fs, explore.Finding{Sig: "C09:panic", Msg: panicList(e)})
			}
			if stuck > 0 || len(st.calls) < st.n {
				fs = append(fs, explore.Finding{Sig: fmt.Sprintf("C09:concurrent-callers-never-complete:callers=%d:sync=%v", st.n, strings.Contains(blockedList(e), "WriteDrain")), Msg: fmt.Sprintf("%d of %d concurrent callers never complete: every goroutine waits for the next (client dispatcher writing a request, server loop handing a reply to its writer, the writers waiting for the peer to read); blocked: %s", stuck, st.n, blockedList(e))})
			}
			return fmt.Sprintf("stuck=%d", stuck), fs
		},
	}
}

// echoSession answers Read with the payload identifying the request.
type echoSession struct{ recSession }

func (s *echoSession) Read(ctx context.Context, fid p9p.Fid, p []byte, off int64) (int, error) {
	vsched.Yield("S.Read", 0)
	if fid == 500 {
		fid = p9p.Fid(off) // same-fid scenarios: the offset identifies the request
	}
	m, err := resultFor(p9p.MessageTread{Fid: fid})
	if err != nil {
		return 0, err
	}
	return copy(p, m.(p9p.MessageRread).Data), nil
}
func (s *echoSession) Version() (int, string) { return p9p.DefaultMSize, "9P2000" }

// c09Mixed: a Read, a Write and a Stat in flight at once on ONE fid, each
// identifiable; S records what it received.
type c09MixedState struct {
	readOK, writeOK, statOK bool
	done                    int
	sawWrite                string
	sawWriteOff             int64
	errs                    []string
}

type mixedSession struct {
	recSession
	st *c09MixedState
}

func (s *mixedSession) Read(ctx context.Context, fid p9p.Fid, p []byte, off int64) (int, error) {
	vsched.Yield("S.Read", 0)
	return copy(p, fmt.Sprintf("read@%d", off)), nil
}
func (s *mixedSession) Write(ctx context.Context, fid p9p.Fid, p []byte, off int64) (int, error) {
	vsched.Yield("S.Write", 0)
	s.st.sawWrite, s.st.sawWriteOff = string(p), off
	return len(p), nil
}
func (s *mixedSession) Stat(ctx context.Context, fid p9p.Fid) (p9p.Dir, error) {
	vsched.Yield("S.Stat", 0)
	return p9p.Dir{Name: fmt.Sprintf("stat-of-%d", fid), Length: uint64(fid)}, nil
}
func (s *mixedSession) Version() (int, string) { return p9p.DefaultMSize, "9P2000" }

func c09MixedScenario(sync bool) *explore.Scenario {
	name := "concurrent/mixed-methods-one-fid/" + map[bool]string{true: "sync-conn", false: "async-conn"}[sync]
	return &explore.Scenario{
		Name:  name,
		Cache: true,
		Body: func() any {
			st := &c09MixedState{}
			S := &mixedSession{st: st}
			connect, closeAll := served(S, 0, sync)
			vsched.Go("main", func() {
				c, err := connect()
				if err != nil {
					return
				}
				ctx := context.Background()
				c.Read(ctx, 77, make([]byte, 4), 0) // the fid has been used before
				end := func() { st.done++; vsched.Yield("caller.end", 77) }
				vsched.Go("reader", func() {
					buf := make([]byte, 32)
					n, err := c.Read(ctx, 77, buf, 1<<33)
					st.readOK = err == nil && string(buf[:n]) == fmt.Sprintf("read@%d", int64(1)<<33)
					if !st.readOK {
						st.errs = append(st.errs, fmt.Sprintf("Read returned %q, %v", buf[:n], err))
					}
					end()
				})
				vsched.Go("writer", func() {
					n, err := c.Write(ctx, 77, []byte("payload-of-the-write"), 5)
					st.writeOK = err == nil && n == 20
					if !st.writeOK {
						st.errs = append(st.errs, fmt.Sprintf("Write returned %d, %v", n, err))
					}
					end()
				})
				vsched.Go("stat", func() {
					d, err := c.Stat(ctx, 77)
					st.statOK = err == nil && d.Name == "stat-of-77" && d.Length == 77
					if !st.statOK {
						st.errs = append(st.errs, fmt.Sprintf("Stat returned %v, %v", d, err))
					}
					end()
				})
				vsched.WaitFor("all-done", 77, func() bool { return st.done == 3 })
				closeAll()
			})
			return st
		},
		Check: func(state any, e *vsched.Exec) (string, []explore.Finding) {
			st := state.(*c09MixedState)
			var fs []explore.Finding
			if len(e.Panics) > 0 {
				fs = append(fs, explore.Finding{Sig: "C09:panic", Msg: panicList(e)})
			}
			if st.done < 3 {
				fs = append(fs, explore.Finding{Sig: "C09:concurrent-callers-never-complete:mixed", Msg: "mixed concurrent calls did not all complete; blocked: " + blockedList(e)})
				return "stuck", fs
			}
			if len(st.errs) > 0 {
				fs = append(fs, explore.Finding{Sig: "C09:concurrent-wrong-result:mixed", Msg: strings.Join(st.errs, "; ")})
			}
			if st.sawWrite != "payload-of-the-write" || st.sawWriteOff != 5 {
				fs = append(fs, explore.Finding{Sig: "C09:concurrent-wrong-args:mixed", Msg: fmt.Sprintf("S received Write(%q, off %d)", st.sawWrite, st.sawWriteOff)})
			}
			return "ok", fs
		},
	}
}

func c09Scenarios() []*explore.Scenario {
	out := []*explore.Scenario{c09SeqScenario("sequential/msize=default", 0), c09SeqScenario("sequential/msize=256", 256), c09SeqScenario("sequential/msize=24", 24)}
	for n := 2; n <= 6; n++ {
		out = append(out, c09ConcScenario(n, false), c09ConcScenario(n, true))
	}
	out = append(out, c09ConcScenarioF(2, false, true), c09ConcScenarioF(3, false, true))
	out = append(out, c09MixedScenario(false), c09MixedScenario(true))
	return out
}

func c09(c *core.Ctx) {
	c.Budget(110*time.Second, 14*time.Minute)
	c.SetRule("sequential: one long history per negotiated msize {65536, 256, 24} on CSession <-> conn <-> ServeConn(SSession(S)) with S recording and scripted: each of the 11 session methods x argument lattice (fids incl. NOFID, offsets {0,1,2^32,2^63-1,-1,-2^63}, read/write sizes around msize-11 / msize-23 and 2*msize, 7 modes, 4 perms, names incl. empty/non-UTF-8/long, 16- and 17-name walks, Dir lattice) x result lattice (values, zero-length, MessageRerror, plain error); S must see exactly the arguments (up to the documented clipping), the caller exactly S's results (errors by wire text). concurrent: 2..6 callers, sync and async connection, all schedules up to the delay bound (quick: 3 for 2-3 callers, 2 for 4-5, 1 for 6; thorough: 4): each caller gets its own payload and all complete. outcome = method x result class / stuck callers")
	c.Assume("errors are compared by the text that crosses the wire (the client wraps it in MessageRerror)", "sync connection = net.Pipe semantics: a write returns once the peer has read it")
	var plans []Plan
	for _, sc := range c09Scenarios()[:3] {
		if c.Quick() && strings.HasSuffix(sc.Name, "=24") {
			continue
		}
		plans = append(plans, Plan{Sc: sc, Max: -1}) // one long sequential history each
	}
	for _, sc := range c09Scenarios()[3:] {
		n := int(sc.Name[len("concurrent/")] - '0')
		if strings.Contains(sc.Name, "mixed-methods") {
			n = 3
		}
		sync := strings.Contains(sc.Name, "sync-conn") && !strings.Contains(sc.Name, "async")
		_ = sync // (5 and 6 callers on a sync connection used to deadlock on the default schedule: defect 18)
		switch {
		case c.Quick():
			if n <= 3 {
				plans = append(plans, Plan{Sc: sc, Delay: true, Max: 3})
			} else if n == 4 {
				plans = append(plans, Plan{Sc: sc, Delay: true, Max: 2})
			} else {
				plans = append(plans, Plan{Sc: sc, Delay: true, Max: 7 - n})
			}
		default:
			plans = append(plans, Plan{Sc: sc, Delay: true, Max: 4})
			if n == 2 {
				plans = append(plans, Plan{Sc: sc, Max: 1})
			}
		}
	}
	runPlans(c, plans)
}
