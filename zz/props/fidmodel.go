package props

import (
	"context"
	"fmt"
	"sort"
	"strings"

	p9p "github.com/frobnitzem/go-p9p"
	"github.com/frobnitzem/go-p9p/zzverif/mockfs"
)

// ---- session operations over a small alphabet ----

type SOp struct {
	Kind  string // attach walk open create read write stat wstat clunk remove
	Fid   p9p.Fid
	Fid2  p9p.Fid // attach: afid; walk: newfid
	Names []string
	Name  string
	Perm  uint32
	Mode  p9p.Flag
	// Fail: index (within this operation) of the file-system call that
	// fails (-1: none). Part: the walk stops one element early instead.
	Fail int
	Part bool
	// Dead: the operation is issued with a context that is already
	// cancelled. The session may carry it out regardless or refuse it
	// without any effect.
	Dead bool
}

func fidStr(f p9p.Fid) string {
	if f == p9p.NOFID {
		return "NOFID"
	}
	return fmt.Sprint(uint32(f))
}

func (o SOp) String() string {
	var s string
	switch o.Kind {
	case "attach":
		s = fmt.Sprintf("attach(%s,afid=%s)", fidStr(o.Fid), fidStr(o.Fid2))
	case "walk":
		s = fmt.Sprintf("walk(%s->%s,%q)", fidStr(o.Fid), fidStr(o.Fid2), o.Names)
	case "open":
		s = fmt.Sprintf("open(%s,%#x)", fidStr(o.Fid), uint8(o.Mode))
	case "create":
		s = fmt.Sprintf("create(%s,%q,%#x,%#x)", fidStr(o.Fid), o.Name, o.Perm, uint8(o.Mode))
	default:
		s = fmt.Sprintf("%s(%s)", o.Kind, fidStr(o.Fid))
	}
	if o.Dead {
		s += "[ctx already cancelled]"
	}
	if o.Fail >= 0 {
		if o.Part {
			s += fmt.Sprintf("[fs call %d: partial]", o.Fail)
		} else {
			s += fmt.Sprintf("[fs call %d fails]", o.Fail)
		}
	}
	return s
}

// SResult is what the caller of a session operation observes.
type SResult struct {
	Err   string
	NQids int
	Data  string
	N     int
}

func (r SResult) OK() bool { return r.Err == "" }

// apply performs op on a real session.
func applyOp(ctx context.Context, s p9p.Session, o SOp) SResult {
	var r SResult
	var err error
	switch o.Kind {
	case "attach":
		_, err = s.Attach(ctx, o.Fid, o.Fid2, "u", "")
	case "walk":
		var q []p9p.Qid
		q, err = s.Walk(ctx, o.Fid, o.Fid2, o.Names...)
		r.NQids = len(q)
	case "open":
		_, _, err = s.Open(ctx, o.Fid, o.Mode)
	case "create":
		_, _, err = s.Create(ctx, o.Fid, o.Name, o.Perm, o.Mode)
	case "read":
		buf := make([]byte, 64)
		var n int
		n, err = s.Read(ctx, o.Fid, buf, 0)
		r.N = n
		r.Data = string(buf[:n])
	case "write":
		r.N, err = s.Write(ctx, o.Fid, []byte("xyz"), 0)
	case "stat":
		_, err = s.Stat(ctx, o.Fid)
	case "wstat":
		err = s.WStat(ctx, o.Fid, p9p.Dir{Mode: ^uint32(0), Length: ^uint64(0)})
	case "clunk":
		err = s.Clunk(ctx, o.Fid)
	case "remove":
		err = s.Remove(ctx, o.Fid)
	default:
		panic("bad op " + o.Kind)
	}
	if err != nil {
		r.Err = err.Error()
		if r.Err == "" {
			r.Err = "error"
		}
	}
	return r
}

// ---- reference fid table (DESIGN.md appendix B) ----

type mFid struct {
	Path string
	Dir  bool
	Open bool
	Mode p9p.Flag
}

type fidModel struct {
	Fids map[p9p.Fid]*mFid
	tree *mockfs.Node
}

func newFidModel() *fidModel { return &fidModel{Fids: map[p9p.Fid]*mFid{}, tree: mockfs.DefaultTree()} }

func (m *fidModel) key() string {
	var ks []string
	for f, e := range m.Fids {
		ks = append(ks, fmt.Sprintf("%d=%s,%v,%v,%d", f, e.Path, e.Dir, e.Open, e.Mode))
	}
	sort.Strings(ks)
	return strings.Join(ks, ";")
}

func (m *fidModel) lookup(path string) *mockfs.Node {
	n := m.tree
	for _, el := range strings.Split(strings.Trim(path, "/"), "/") {
		if el == "" {
			continue
		}
		if n == nil || !n.Dir {
			return nil
		}
		n = n.Children[el]
	}
	return n
}

// expectation for one operation
type mExpect struct {
	OK      bool
	ErrHas  string // substring the error must contain ("" = any error)
	NQids   int
	Skip    bool // behaviour left open by the statement: not in the alphabet
	FSCalls int  // file-system calls the operation performs when nothing fails (informative)
	// AltUnbind: the statement allows two outcomes for the table (create
	// whose directory listing cannot be opened): fid stays or is unbound
	AltUnbind bool
}

// step computes the expected outcome of o and updates the model.
// failed tells whether the injected file-system failure was consumed by this
// operation (decided by the harness from the mock's call log) and which
// call it hit.
func (m *fidModel) step(o SOp, failedCall string) mExpect {
	bad := func(sub string) mExpect { return mExpect{ErrHas: sub} }
	f := m.Fids[o.Fid]
	switch o.Kind {
	case "attach":
		if o.Fid2 != p9p.NOFID {
			return bad("") // no auth configured: never succeeds, changes nothing
		}
		if o.Fid == p9p.NOFID {
			return bad("unknown fid")
		}
		if f != nil {
			return bad("duplicate fid")
		}
		if failedCall == "Attach" {
			return bad("")
		}
		m.Fids[o.Fid] = &mFid{Path: "/", Dir: true}
		return mExpect{OK: true}
	case "walk":
		if p9p.ValidPath(o.Names) < 0 {
			return bad("")
		}
		if o.Fid == p9p.NOFID || f == nil {
			return bad("unknown fid")
		}
		if f.Open {
			return mExpect{Skip: true}
		}
		if o.Fid2 != o.Fid {
			if o.Fid2 == p9p.NOFID {
				return bad("unknown fid")
			}
			if m.Fids[o.Fid2] != nil {
				return bad("duplicate fid")
			}
		}
		if len(o.Names) == 0 {
			if o.Fid2 == o.Fid {
				return mExpect{OK: true}
			}
			if failedCall == "Walk" {
				return bad("")
			}
			m.Fids[o.Fid2] = &mFid{Path: f.Path, Dir: f.Dir}
			return mExpect{OK: true}
		}
		if !f.Dir {
			return bad("")
		}
		if failedCall == "Walk" && !o.Part {
			return bad("")
		}
		// resolve in the fixed tree
		path := f.Path
		n := m.lookup(path)
		got := 0
		limit := len(o.Names)
		if failedCall == "Walk" && o.Part {
			limit--
		}
		for i, name := range o.Names {
			if i >= limit || n == nil {
				break
			}
			if name == ".." {
				// the parent; the root is its own parent
				path = mockfs.ParentPath(path)
				n = m.lookup(path)
				got++
				continue
			}
			if !n.Dir || n.Children[name] == nil {
				break
			}
			n = n.Children[name]
			path = strings.TrimSuffix(path, "/") + "/" + name
			got++
		}
		if got == 0 {
			return bad("")
		}
		if got < len(o.Names) {
			return mExpect{OK: true, NQids: got}
		}
		m.Fids[o.Fid2] = &mFid{Path: path, Dir: n.Dir}
		return mExpect{OK: true, NQids: got}
	case "open":
		if o.Fid == p9p.NOFID || f == nil {
			return bad("unknown fid")
		}
		if f.Open {
			return bad("")
		}
		if failedCall == "Open" || failedCall == "OpenDir" {
			return bad("")
		}
		f.Open, f.Mode = true, o.Mode
		return mExpect{OK: true}
	case "create":
		if o.Name == "." || o.Name == ".." {
			return bad("")
		}
		if o.Fid == p9p.NOFID || f == nil {
			return bad("unknown fid")
		}
		if f.Open {
			return mExpect{Skip: true}
		}
		if !f.Dir {
			return bad("")
		}
		if failedCall == "Create" {
			return bad("")
		}
		if failedCall == "OpenDir" {
			return mExpect{ErrHas: "", AltUnbind: true}
		}
		np := strings.TrimSuffix(f.Path, "/") + "/" + o.Name
		m.Fids[o.Fid] = &mFid{Path: np, Dir: o.Perm&p9p.DMDIR != 0, Open: true, Mode: o.Mode}
		return mExpect{OK: true}
	case "read":
		if o.Fid == p9p.NOFID || f == nil {
			return bad("unknown fid")
		}
		if !f.Open || f.Mode&3 == p9p.OWRITE {
			return bad("")
		}
		if failedCall == "File.Read" {
			return bad("")
		}
		return mExpect{OK: true}
	case "write":
		if o.Fid == p9p.NOFID || f == nil {
			return bad("unknown fid")
		}
		if !f.Open || (f.Mode&3 != p9p.OWRITE && f.Mode&3 != p9p.ORDWR) {
			return bad("")
		}
		if f.Dir {
			return bad("") // directories are not writable
		}
		if failedCall == "File.Write" {
			return bad("")
		}
		return mExpect{OK: true}
	case "stat", "wstat":
		if o.Fid == p9p.NOFID || f == nil {
			return bad("unknown fid")
		}
		if failedCall == "Stat" || failedCall == "WStat" {
			return bad("")
		}
		return mExpect{OK: true}
	case "clunk", "remove":
		if o.Fid == p9p.NOFID || f == nil {
			return bad("unknown fid")
		}
		delete(m.Fids, o.Fid)
		if failedCall == "Clunk" || failedCall == "Remove" {
			return bad("")
		}
		return mExpect{OK: true}
	}
	panic("bad op")
}

// dumpImpl renders the implementation's fid table in the model's key format.
func dumpImpl(s p9p.Session) (string, []string) {
	fids, ok := p9p.VerifFids(s)
	if !ok {
		return "?", []string{"VerifFids: not an SFileSys session"}
	}
	var ks, probs []string
	for _, f := range fids {
		if f.Locked {
			probs = append(probs, fmt.Sprintf("fid %d is left locked", f.Fid))
			continue
		}
		if !f.Bound {
			probs = append(probs, fmt.Sprintf("fid %d is in the table but bound to nothing", f.Fid))
			continue
		}
		e, _ := f.Ent.(*mockfs.Ent)
		if e == nil {
			probs = append(probs, fmt.Sprintf("fid %d bound to a foreign entry %T", f.Fid, f.Ent))
			continue
		}
		if e.Dummy {
			probs = append(probs, fmt.Sprintf("fid %d bound to the placeholder of a partial walk", f.Fid))
		}
		if e.Released > 0 {
			probs = append(probs, fmt.Sprintf("fid %d is bound to entry #%d (%s) which was released by %s", f.Fid, e.ID, e.PathStr, e.By))
		}
		mode := f.Mode
		if !f.Open {
			mode = 0
		}
		ks = append(ks, fmt.Sprintf("%d=%s,%v,%v,%d", f.Fid, e.PathStr, e.IsDirF, f.Open, mode))
	}
	sort.Strings(ks)
	return strings.Join(ks, ";"), probs
}
