package props

import (
	"context"
	"fmt"
	"sort"
	"strings"
	"time"

	p9p "github.com/frobnitzem/go-p9p"
	"github.com/frobnitzem/go-p9p/zzverif/core"
	"github.com/frobnitzem/go-p9p/zzverif/explore"
	"github.com/frobnitzem/go-p9p/zzverif/mockfs"
	"github.com/frobnitzem/go-p9p/zzverif/vsched"
)

func init() {
	Registry["C14"] = c14
	ScenarioFns["C14"] = c14Scenarios
}

// opRec is one concurrent session operation with its real-time interval.
type opRec struct {
	Op       SOp
	Task     int
	Call     int // logical time of invocation
	Ret      int // logical time of return (0: never returned)
	Res      SResult
	Failed   string // name of the file-system call that was made to fail inside this operation
	Returned bool
}

type c14State struct {
	fs      *mockfs.FS
	sess    p9p.Session
	setup   []SOp
	ops     []*opRec
	clock   int
	cur     map[string]*opRec // running operation per task
	setupOK bool
}

type c14Spec struct {
	Name  string
	Setup []SOp
	Tasks [][]SOp
	Dev   int // file-system failures as deviations
}

func deadOp(o SOp) SOp { o.Dead = true; return o }

func sop(kind string, fid p9p.Fid, rest ...any) SOp {
	o := SOp{Kind: kind, Fid: fid, Fid2: p9p.NOFID, Fail: -1}
	for _, r := range rest {
		switch v := r.(type) {
		case p9p.Fid:
			o.Fid2 = v
		case []string:
			o.Names = v
		case string:
			o.Name = v
		case p9p.Flag:
			o.Mode = v
		case uint32:
			o.Perm = v
		}
	}
	return o
}

// c14Collide: the operations that collide on fid 1, for a closed directory
// fid and for an open file fid, with the setup that binds it.
func c14Collide() (dirSetup, dirOps, fileSetup, fileOps []SOp) {
	attach0 := sop("attach", 0)
	dirSetup = []SOp{attach0, sop("walk", 0, p9p.Fid(1), []string{"a"})}
	fileSetup = []SOp{attach0, sop("walk", 0, p9p.Fid(1), []string{"a", "b"}), sop("open", 1, p9p.ORDWR)}
	dirOps = []SOp{
		sop("stat", 1), sop("wstat", 1), sop("clunk", 1), sop("remove", 1), sop("open", 1, p9p.OREAD),
		sop("walk", 1, p9p.Fid(2), []string{}), sop("walk", 1, p9p.Fid(3), []string{"b"}), sop("walk", 1, p9p.Fid(1), []string{"d"}),
		sop("walk", 1, p9p.Fid(4), []string{"b", "x"}), sop("create", 1, "n", uint32(0644), p9p.ORDWR), sop("attach", 5, p9p.Fid(1)),
	}
	fileOps = []SOp{sop("read", 1), sop("write", 1), sop("stat", 1), sop("wstat", 1), sop("clunk", 1), sop("remove", 1), sop("open", 1, p9p.OREAD), sop("walk", 1, p9p.Fid(2), []string{})}
	return
}

// c14Pairs: every unordered pair of operations colliding on fid 1, for a
// closed directory fid and for an open file fid.
func c14Pairs() []c14Spec {
	dirSetup, dirOps, fileSetup, fileOps := c14Collide()
	var out []c14Spec
	name := func(o SOp) string {
		n := o.Kind
		if o.Kind == "walk" {
			n = fmt.Sprintf("walk%d%v", o.Fid2, o.Names)
		}
		return n
	}
	gen := func(tag string, setup, ops []SOp) {
		for i := range ops {
			for j := i; j < len(ops); j++ {
				a, b := ops[i], ops[j]
				// two requests must not allocate the same new fid (the statement's proviso)
				if a.Kind == "walk" && b.Kind == "walk" && a.Fid2 == b.Fid2 && a.Fid2 != 1 {
					b.Fid2 += 10
				}
				if a.Kind == "attach" && b.Kind == "attach" {
					b.Fid = 6
				}
				out = append(out, c14Spec{Name: fmt.Sprintf("pair/%s/%s|%s", tag, name(a), name(b)), Setup: setup, Tasks: [][]SOp{{a}, {b}}})
			}
		}
	}
	gen("dir", dirSetup, dirOps)
	gen("file", fileSetup, fileOps)
	return out
}

func c14Specs() []c14Spec { return append(c14Hand(), c14Pairs()...) }

func c14Hand() []c14Spec {
	attach0 := sop("attach", 0)
	base := []SOp{attach0, sop("walk", 0, p9p.Fid(1), []string{"a", "b"}), sop("open", 1, p9p.ORDWR)}
	dir1 := []SOp{attach0, sop("walk", 0, p9p.Fid(1), []string{"a"})}
	two := []SOp{attach0, sop("walk", 0, p9p.Fid(1), []string{"a"}), sop("walk", 0, p9p.Fid(2), []string{"a"})}
	three := append(append([]SOp{}, two...), sop("walk", 0, p9p.Fid(3), []string{"a"}))
	return []c14Spec{
		{Name: "clunk|read", Setup: base, Tasks: [][]SOp{{sop("clunk", 1)}, {sop("read", 1)}}},
		{Name: "read|read", Setup: base, Tasks: [][]SOp{{sop("read", 1)}, {sop("read", 1)}}},
		{Name: "read|write", Setup: base, Tasks: [][]SOp{{sop("read", 1)}, {sop("write", 1)}}},
		{Name: "remove|read", Setup: base, Tasks: [][]SOp{{sop("remove", 1)}, {sop("read", 1)}}},
		{Name: "clunk|stat", Setup: base, Tasks: [][]SOp{{sop("clunk", 1)}, {sop("stat", 1)}}},
		{Name: "clunk|write|stat", Setup: base, Tasks: [][]SOp{{sop("clunk", 1)}, {sop("write", 1)}, {sop("stat", 1)}}},
		{Name: "clunk|walk-from", Setup: dir1, Tasks: [][]SOp{{sop("clunk", 1)}, {sop("walk", 1, p9p.Fid(2), []string{"b"})}}},
		{Name: "remove|clone", Setup: dir1, Tasks: [][]SOp{{sop("remove", 1)}, {sop("walk", 1, p9p.Fid(2), []string{})}}},
		{Name: "inplace-walk|stat", Setup: dir1, Tasks: [][]SOp{{sop("walk", 1, p9p.Fid(1), []string{"b"})}, {sop("stat", 1)}}},
		{Name: "inplace-walk|clunk", Setup: dir1, Tasks: [][]SOp{{sop("walk", 1, p9p.Fid(1), []string{"b"})}, {sop("clunk", 1)}}},
		{Name: "attach|attach", Setup: nil, Tasks: [][]SOp{{sop("attach", 1)}, {sop("attach", 2)}}},
		{Name: "attach|attach-afid", Setup: []SOp{attach0}, Tasks: [][]SOp{{sop("attach", 1, p9p.Fid(0))}, {sop("stat", 0)}}},
		{Name: "open|open", Setup: dir1, Tasks: [][]SOp{{sop("open", 1, p9p.OREAD)}, {sop("open", 1, p9p.OREAD)}}},
		{Name: "clunk|clunk", Setup: dir1, Tasks: [][]SOp{{sop("clunk", 1)}, {sop("clunk", 1)}}},
		{Name: "walk-new|clunk-new", Setup: []SOp{attach0}, Tasks: [][]SOp{{sop("walk", 0, p9p.Fid(2), []string{"a"})}, {sop("clunk", 2)}}},
		{Name: "create|stat", Setup: dir1, Tasks: [][]SOp{{sop("create", 1, "n", uint32(0644), p9p.ORDWR)}, {sop("stat", 1)}}},
		{Name: "createdir|clunk", Setup: dir1, Tasks: [][]SOp{{sop("create", 1, "n", uint32(p9p.DMDIR|0755), p9p.OREAD)}, {sop("clunk", 1)}}},
		{Name: "read,clunk|stat,walk", Setup: base, Tasks: [][]SOp{{sop("read", 1), sop("clunk", 1)}, {sop("stat", 1), sop("walk", 0, p9p.Fid(1), []string{"c"})}}},
		// a walk to a new fid that fails or stops short, while another request already names that fid
		{Name: "walk-new-notfound|clunk-new", Setup: []SOp{attach0}, Tasks: [][]SOp{{sop("walk", 0, p9p.Fid(2), []string{"x"})}, {sop("clunk", 2)}}},
		{Name: "walk-new-partial|stat-new", Setup: []SOp{attach0}, Tasks: [][]SOp{{sop("walk", 0, p9p.Fid(2), []string{"a", "x"})}, {sop("stat", 2)}}},
		{Name: "walk-new-fails|stat-new+fault", Setup: []SOp{attach0}, Tasks: [][]SOp{{sop("walk", 0, p9p.Fid(2), []string{"a"})}, {sop("stat", 2)}}, Dev: 1},
		// an operation issued with an already cancelled context, colliding with another
		{Name: "read(cancelled)|stat", Setup: base, Tasks: [][]SOp{{deadOp(sop("read", 1))}, {sop("stat", 1)}}},
		{Name: "write(cancelled)|clunk", Setup: base, Tasks: [][]SOp{{deadOp(sop("write", 1))}, {sop("clunk", 1)}}},
		{Name: "walk(cancelled)|stat", Setup: dir1, Tasks: [][]SOp{{deadOp(sop("walk", 1, p9p.Fid(2), []string{"b"}))}, {sop("stat", 1)}}},
		// collisions across two bound fids: a walk names the other fid as its target
		{Name: "walk12|walk21/both-bound", Setup: two, Tasks: [][]SOp{{sop("walk", 1, p9p.Fid(2), []string{})}, {sop("walk", 2, p9p.Fid(1), []string{})}}},
		{Name: "walk12[b]|walk21[d]/both-bound", Setup: two, Tasks: [][]SOp{{sop("walk", 1, p9p.Fid(2), []string{"b"})}, {sop("walk", 2, p9p.Fid(1), []string{"d"})}}},
		{Name: "walk12|clunk2/both-bound", Setup: two, Tasks: [][]SOp{{sop("walk", 1, p9p.Fid(2), []string{})}, {sop("clunk", 2)}}},
		{Name: "walk12|remove2|stat1/both-bound", Setup: two, Tasks: [][]SOp{{sop("walk", 1, p9p.Fid(2), []string{})}, {sop("remove", 2)}, {sop("stat", 1)}}},
		{Name: "walk12|walk23|walk31/all-bound", Setup: three, Tasks: [][]SOp{{sop("walk", 1, p9p.Fid(2), []string{})}, {sop("walk", 2, p9p.Fid(3), []string{})}, {sop("walk", 3, p9p.Fid(1), []string{})}}},
		// the same collisions with one file-system call failing somewhere
		{Name: "clunk|read+fault", Setup: base, Tasks: [][]SOp{{sop("clunk", 1)}, {sop("read", 1)}}, Dev: 1},
		{Name: "inplace-walk|clunk+fault", Setup: dir1, Tasks: [][]SOp{{sop("walk", 1, p9p.Fid(1), []string{"b"})}, {sop("clunk", 1)}}, Dev: 1},
		{Name: "createdir|stat+fault", Setup: dir1, Tasks: [][]SOp{{sop("create", 1, "n", uint32(p9p.DMDIR|0755), p9p.OREAD)}, {sop("stat", 1)}}, Dev: 1},
		{Name: "remove|clone+fault", Setup: dir1, Tasks: [][]SOp{{sop("remove", 1)}, {sop("walk", 1, p9p.Fid(2), []string{})}}, Dev: 1},
	}
}

func c14Scenario(sp c14Spec) *explore.Scenario {
	spec := sp
	return &explore.Scenario{
		Name:  spec.Name,
		Cache: false, // the linearizability oracle depends on real-time order of calls and returns, which equivalent traces do not preserve
		Body: func() any {
			st := &c14State{fs: mockfs.New(), cur: map[string]*opRec{}, setup: spec.Setup}
			st.sess = p9p.SFileSys(st.fs)
			ctx := context.Background()
			st.setupOK = true
			for _, o := range spec.Setup {
				if r := applyOp(ctx, st.sess, o); !r.OK() {
					st.setupOK = false
				}
			}
			st.fs.Concurrent = true
			if spec.Dev > 0 {
				st.fs.Decide = func(n int, call string, h *mockfs.Ent) int {
					rec := st.cur[vsched.TaskName()]
					if rec == nil || rec.Failed != "" {
						return mockfs.OK
					}
					if vsched.Choose("fs.fail?"+call, 2, true) == 1 {
						rec.Failed = call
						return mockfs.Fail
					}
					return mockfs.OK
				}
			}
			for ti, ops := range spec.Tasks {
				ti, ops := ti, ops
				vsched.Go(fmt.Sprintf("client%d", ti), func() {
					name := vsched.TaskName()
					for _, o := range ops {
						rec := &opRec{Op: o, Task: ti}
						st.ops = append(st.ops, rec)
						st.clock++
						rec.Call = st.clock
						st.cur[name] = rec
						octx := ctx
						if o.Dead {
							c, cancel := context.WithCancel(ctx)
							cancel()
							octx = c
						}
						rec.Res = applyOp(octx, st.sess, o)
						st.clock++
						rec.Ret = st.clock
						rec.Returned = true
						st.cur[name] = nil
					}
				})
			}
			return st
		},
		Check: c14Check,
	}
}

func c14Check(state any, e *vsched.Exec) (string, []explore.Finding) {
	st := state.(*c14State)
	var fs []explore.Finding
	bad := func(sig, format string, a ...any) {
		var os []string
		for _, r := range st.ops {
			os = append(os, fmt.Sprintf("t%d:%s[%d..%d]=%s", r.Task, r.Op, r.Call, r.Ret, resStr(r)))
		}
		fs = append(fs, explore.Finding{Sig: "C14:" + sig, Msg: fmt.Sprintf(format, a...) + "\noperations: " + strings.Join(os, " ; ")})
	}
	if len(e.Panics) > 0 {
		bad("panic", "a task panicked: %s\n%s", panicList(e), e.Panics[0].Stack)
		return "panic", fs
	}
	if e.Horizon {
		return "horizon", fs
	}
	if !st.setupOK {
		bad("setup", "setup operations failed")
		return "setup", fs
	}
	for _, r := range st.ops {
		if !r.Returned {
			bad("never-returns", "%s never returns although every file-system call returned; blocked: %s", r.Op, blockedList(e))
			return "deadlock", fs
		}
	}
	if len(e.Blocked) > 0 {
		bad("never-returns", "tasks blocked: %s", blockedList(e))
		return "deadlock", fs
	}
	for _, p := range st.fs.Problems {
		bad("fs:"+firstWords(p), "the file system observed: %s", p)
	}
	// fid table at quiescence
	got, probs := dumpImpl(st.sess)
	for _, p := range probs {
		bad("table:"+firstWords(p), "at quiescence: %s", p)
	}
	// linearizability: some order consistent with real time explains every
	// result and the final table
	n := len(st.ops)
	perm := make([]int, 0, n)
	used := make([]bool, n)
	var okOrder []int
	sawSkip := false
	var try func(m *fidModel) bool
	try = func(m *fidModel) bool {
		if len(perm) == n {
			if m.key() == got {
				okOrder = append([]int{}, perm...)
				return true
			}
			return false
		}
		for i := 0; i < n; i++ {
			if used[i] {
				continue
			}
			// real-time order: i may come next only if no unused j returned before i was called
			legal := true
			for j := 0; j < n; j++ {
				if !used[j] && j != i && st.ops[j].Ret < st.ops[i].Call {
					legal = false
				}
			}
			if !legal {
				continue
			}
			r := st.ops[i]
			if r.Op.Dead && !r.Res.OK() {
				// issued with a cancelled context and refused: no effect at all
				used[i] = true
				perm = append(perm, i)
				if try(m) {
					return true
				}
				perm = perm[:len(perm)-1]
				used[i] = false
			}
			mc := newFidModelFrom(m)
			exp := mc.step(r.Op, r.Failed)
			if exp.Skip {
				sawSkip = true // an order in which the statement leaves the behaviour open (walk/create from an opened fid)
				continue
			}
			match := exp.OK == r.Res.OK()
			if match && !exp.OK && exp.ErrHas != "" && !strings.Contains(r.Res.Err, exp.ErrHas) {
				match = false
			}
			if match && exp.OK && r.Op.Kind == "walk" && r.Res.NQids != exp.NQids {
				match = false
			}
			var alts []*fidModel
			if match {
				alts = append(alts, mc)
				if exp.AltUnbind {
					a := newFidModelFrom(mc)
					delete(a.Fids, r.Op.Fid)
					alts = append(alts, a)
				}
			}
			for _, a := range alts {
				used[i] = true
				perm = append(perm, i)
				if try(a) {
					return true
				}
				perm = perm[:len(perm)-1]
				used[i] = false
			}
		}
		return false
	}
	m0 := newFidModel()
	for _, o := range st.setup {
		m0.step(o, "")
	}
	if len(probs) == 0 && !try(m0) && !sawSkip {
		bad("not-linearizable", "no sequential order of the operations consistent with real time yields these results and the final fid table {%s}", got)
	}
	var oc []string
	for _, r := range st.ops {
		oc = append(oc, resStr(r))
	}
	sort.Strings(oc)
	return strings.Join(oc, ",") + fmt.Sprintf(" order=%v", okOrder), fs
}

func resStr(r *opRec) string {
	s := r.Op.Kind
	if !r.Returned {
		return s + ":blocked"
	}
	if r.Res.OK() {
		s += ":ok"
	} else if strings.Contains(r.Res.Err, "unknown fid") {
		s += ":unknown-fid"
	} else if strings.Contains(r.Res.Err, "duplicate fid") {
		s += ":dup-fid"
	} else {
		s += ":err"
	}
	if r.Failed != "" {
		s += "(" + r.Failed + " failed)"
	}
	return s
}

func c14Scenarios() []*explore.Scenario {
	var out []*explore.Scenario
	for _, sp := range c14Specs() {
		out = append(out, c14Scenario(sp))
	}
	for _, sp := range c14Specs() {
		if sp.Dev == 0 {
			out = append(out, c14RaceScenario(sp))
		}
	}
	return out
}

// c14RaceScenario: the same collisions on a session over a file system
// without shared mutable state, tasks recording nothing: the race detector
// is the oracle (race mode).
func c14RaceScenario(sp c14Spec) *explore.Scenario {
	spec := sp
	return &explore.Scenario{
		Name:  "race/" + spec.Name,
		Cache: true,
		Body: func() any {
			sess := p9p.SFileSys(mockfs.NewQuiet())
			ctx := context.Background()
			for _, o := range spec.Setup {
				applyOp(ctx, sess, o)
			}
			for ti, ops := range spec.Tasks {
				ops := ops
				vsched.Go(fmt.Sprintf("client%d", ti), func() {
					for _, o := range ops {
						applyOp(ctx, sess, o)
					}
				})
			}
			// one more client: the session is stopped while they run
			if strings.HasPrefix(spec.Name, "clunk|") {
				vsched.Go("stop", func() { sess.Stop(nil) })
			}
			return nil
		},
		Check: func(state any, e *vsched.Exec) (string, []explore.Finding) {
			var fs []explore.Finding
			if len(e.Panics) > 0 {
				fs = append(fs, explore.Finding{Sig: "C14:race-mode:panic", Msg: panicList(e)})
			}
			return "ran", fs
		},
	}
}

func c14(c *core.Ctx) {
	c.Budget(100*time.Second, 14*time.Minute)
	c.SetRule("scenarios: 2-3 client tasks x 1-2 session operations on a real SFileSys session over the mock file system, chosen to collide on one fid (clunk|read, clunk|stat, clunk|walk-from, remove|clone, in-place walk|stat, in-place walk|clunk, attach|attach, open|open, clunk|clunk, walk-new|clunk-new, create|stat, createdir|clunk, 2x2 mixes; walks naming another bound fid as their target, in a cycle of two and of three), optionally with one file-system call failing at every possible position; every interleaving at every lock / sync.Map / file-system-call entry+exit up to the bound. Oracle: all operations return; the mock never sees overlapping calls on one entry or use after release; no fid locked at quiescence; brute-force linearizability: some order consistent with real time reproduces every result and the final fid table (hook) in the reference fid table. outcome = multiset of results + witness order")
	c.Assume("the client does not allocate one new fid from two requests at once (as the statement assumes)", "data-race freedom is decided by the race-mode run when available (coverage.race_mode)", "no state cache here: the mock file system is harness state shared between tasks")
	var plans []Plan
	for _, sp := range c14Specs() {
		sc := c14Scenario(sp)
		if c.Quick() {
			plans = append(plans, Plan{Sc: sc, Max: 4, Dev: sp.Dev}, Plan{Sc: sc, Delay: true, Max: 6, Dev: sp.Dev})
		} else {
			plans = append(plans, Plan{Sc: sc, Max: 16, Dev: sp.Dev}, Plan{Sc: sc, Delay: true, Max: 16, Dev: sp.Dev})
		}
	}
	runPlans(c, plans)
	var raceScs []*explore.Scenario
	for _, sc := range c14Scenarios() {
		if strings.HasPrefix(sc.Name, "race/") {
			raceScs = append(raceScs, sc)
		}
	}
	rb := 2
	if !c.Quick() {
		rb = 6
	}
	runRaceMode(c, raceScs, rb)
}
