package props

import (
	"fmt"
	"os"
	"reflect"
	"strings"
	"sync"
	"time"

	p9p "github.com/frobnitzem/go-p9p"
	"github.com/frobnitzem/go-p9p/zzverif/core"
	"github.com/frobnitzem/go-p9p/zzverif/explore"
	"github.com/frobnitzem/go-p9p/zzverif/vsched"
)

func init() {
	Registry["C06"] = c06
	ScenarioFns["C06"] = c06Scenarios
}

// c06Step: request i goes out with Tag; when Await >= 0 the client first
// waits until it has read the reply to request Await.
type c06Step struct {
	Tag   p9p.Tag
	Await int // >= 0: wait until the tag is free from the client's view (every reply to it read)
	Kind  int
	Flush bool // the request is a Tflush of Old (possibly itself a duplicate-tag request)
	Old   p9p.Tag
}

func (s c06Step) msg(i int) p9p.Message {
	if s.Flush {
		return p9p.MessageTflush{Oldtag: s.Old}
	}
	return c06Msg(i, s.Kind)
}

func c06Msg(i, kind int) p9p.Message {
	// the nine request kinds whose replies can carry the request's identity
	switch kind % 9 {
	case 0:
		return p9p.MessageTread{Fid: p9p.Fid(i), Offset: uint64(i) << 40, Count: 9}
	case 1:
		return p9p.MessageTstat{Fid: p9p.Fid(i)}
	case 2:
		return p9p.MessageTwrite{Fid: p9p.Fid(i), Offset: 7, Data: []byte{byte(i), 2, 3}}
	case 3:
		return p9p.MessageTwalk{Fid: p9p.Fid(i), Newfid: 99, Wnames: []string{"a", "b"}}
	case 4:
		return p9p.MessageTopen{Fid: p9p.Fid(i), Mode: p9p.ORDWR}
	case 5:
		return p9p.MessageTcreate{Fid: p9p.Fid(i), Name: "n", Perm: 0644, Mode: p9p.OWRITE}
	case 6:
		return p9p.MessageTattach{Fid: p9p.Fid(i), Afid: p9p.NOFID, Uname: "u", Aname: "a"}
	case 8:
		// a version request in the middle of a session is a request like any other
		return p9p.MessageTversion{MSize: uint32(5000 + i), Version: "9P2000"}
	}
	return p9p.MessageTauth{Afid: p9p.Fid(i), Uname: "u", Aname: "a"}
}

type c06State struct {
	*serveRun
	steps      []c06Step
	clientEnd  string
	freeAtSend []bool // tag had no unanswered request (client's view) when step i was sent
}

func c06Scenario(name string, steps []c06Step, sync bool, hsteps int) *explore.Scenario {
	return c06ScenarioH(name, steps, sync, func() *scriptHandler { return &scriptHandler{Steps: hsteps} })
}

func c06ScenarioH(name string, steps []c06Step, sync bool, mkh func() *scriptHandler) *explore.Scenario {
	return &explore.Scenario{
		Name:     name,
		Cache:    true,
		MaxSteps: 400000,
		Body: func() any {
			st := &c06State{serveRun: newServeRun(sync, mkh()), steps: steps}
			st.startServer()
			vsched.Go("client", func() {
				if !st.negotiate(65536) {
					st.clientEnd = "negotiation failed"
					return
				}
				if strings.HasPrefix(name, "late-timers/") {
					// the session outlives every timeout the server armed during
					// the handshake: their time runs out now
					st.note = append(st.note, fmt.Sprintf("timers fired: %d", vsched.FireTimers()))
				}
				tagFree := func(i int) bool {
					sent, got := 0, 0
					for j := 0; j < i; j++ {
						if steps[j].Tag == steps[i].Tag {
							sent++
						}
					}
					for _, r := range st.replies {
						if r.Tag == steps[i].Tag {
							got++
						}
					}
					return got >= sent
				}
				for i, s := range steps {
					for s.Await >= 0 && !tagFree(i) {
						if _, ok := st.recv(); !ok {
							st.clientEnd = "stream ended while awaiting a reply"
							return
						}
					}
					st.freeAtSend = append(st.freeAtSend, tagFree(i))
					if err := st.send(s.Tag, s.msg(i)); err != nil {
						st.clientEnd = "write failed: " + err.Error()
						return
					}
				}
				for len(st.replies)+len(st.badFrames) < len(steps) {
					if _, ok := st.recv(); !ok {
						st.clientEnd = "stream ended before every reply arrived"
						return
					}
				}
				st.cli.Close()
				st.clientEnd = "ok"
			})
			return st
		},
		Check: c06Check,
	}
}

func c06Check(state any, e *vsched.Exec) (string, []explore.Finding) {
	st := state.(*c06State)
	var fs []explore.Finding
	bad := func(sig, format string, a ...any) {
		fs = append(fs, explore.Finding{Sig: "C06:" + sig, Msg: fmt.Sprintf(format, a...) + "\nlog: " + strings.Join(e.Log, " | ")})
	}
	if len(e.Panics) > 0 {
		bad("panic", "a task panicked: %s", panicList(e))
	}
	if e.Horizon {
		return "horizon", fs
	}
	// frames still in flight towards the client count as replies too
	for _, f := range st.cli.TryFrames() {
		fc, _, err := decodeFrame(f)
		if err != nil {
			st.badFrames = append(st.badFrames, err.Error())
		} else {
			st.replies = append(st.replies, fc)
			st.note = append(st.note, "unread")
		}
	}
	if len(st.badFrames) > 0 {
		bad("undecodable-reply", "server sent a frame an independent decoder rejects: %v", st.badFrames)
	}
	n := len(st.steps)
	own := make([]int, n) // replies carrying request i's own payload
	dup := make([]int, n) // duplicate-tag errors attributed to request i
	order := []string{}
	dupByTag := map[p9p.Tag]int{}
	for _, r := range st.replies {
		id := replyID(r.Message)
		switch {
		case id >= 0 && id < n:
			own[id]++
			order = append(order, fmt.Sprint(id))
			if r.Tag != st.steps[id].Tag {
				bad("wrong-tag", "reply with request %d's result carries tag %d, request was sent with tag %d", id, r.Tag, st.steps[id].Tag)
			}
			want, werr := resultFor(c06Msg(id, st.steps[id].Kind))
			if werr != nil {
				if re, ok := r.Message.(p9p.MessageRerror); !ok || re.Ename != enameOf(werr) {
					bad("wrong-result", "request %d: handler returned error %q, reply is %s", id, werr, Brief(r.Message))
				}
			} else if !EqMsg(want, r.Message) {
				bad("wrong-result", "request %d: handler returned %s, reply is %s", id, Brief(want), Brief(r.Message))
			}
		case isDupErr(r.Message):
			dupByTag[r.Tag]++
			order = append(order, "dup")
		case isFlushReply(r.Message) && flushStepFor(st.steps, own, r.Tag) >= 0:
			own[flushStepFor(st.steps, own, r.Tag)]++
			order = append(order, "flush")
		default:
			bad("stray-reply", "reply %s matches no request", Brief(r))
		}
	}
	// handler invocations
	calls := make([]int, n)
	for _, inv := range st.h.Calls {
		id := reqID(inv.Msg)
		if id < 0 || id >= n {
			bad("stray-dispatch", "handler invoked with %s, which was never sent", Brief(inv.Msg))
			continue
		}
		calls[id]++
		if !reflect.DeepEqual(NormMsg(inv.Msg), NormMsg(c06Msg(id, st.steps[id].Kind))) {
			bad("altered-request", "handler got %s, client sent %s", Brief(inv.Msg), Brief(c06Msg(id, st.steps[id].Kind)))
		}
	}
	// duplicate-tag errors carry no payload: they belong, in order, to the
	// requests of that tag that were neither dispatched nor answered
	for i := 0; i < n && i < len(st.sent); i++ {
		if own[i] == 0 && calls[i] == 0 && dupByTag[st.steps[i].Tag] > 0 {
			dup[i]++
			dupByTag[st.steps[i].Tag]--
		}
	}
	for t, k := range dupByTag {
		if k > 0 {
			bad("stray-duptag", "%d duplicate-tag error(s) for tag %d that no request accounts for", k, t)
		}
	}
	for i := 0; i < n; i++ {
		if i >= len(st.sent) {
			continue // never sent (client ended early; reported below)
		}
		// a request named by a Tflush that was executed (not refused as a
		// duplicate) may legitimately stay unanswered: that is C07's business
		flushed := false
		for k := i + 1; k < n; k++ {
			if st.steps[k].Flush && st.steps[k].Old == st.steps[i].Tag && own[k] == 1 {
				flushed = true
			}
		}
		switch {
		case own[i]+dup[i] == 0 && flushed:
		case own[i]+dup[i] == 0:
			bad("missing-reply", "request %d (tag %d) never received a reply", i, st.steps[i].Tag)
		case own[i]+dup[i] > 1:
			bad("multiple-replies", "request %d (tag %d) received %d replies", i, st.steps[i].Tag, own[i]+dup[i])
		}
		if calls[i] > 1 {
			bad("dispatched-twice", "handler invoked %d times for request %d", calls[i], i)
		}
		if st.steps[i].Flush {
			if calls[i] != 0 {
				bad("flush-dispatched", "Tflush %d reached the handler", i)
			}
			continue
		}
		if own[i] == 1 && calls[i] != 1 {
			bad("result-without-dispatch", "request %d got a result but the handler ran %d times", i, calls[i])
		}
		if dup[i] == 1 {
			if calls[i] != 0 {
				bad("dup-dispatched", "request %d was answered 'duplicate tag' but also dispatched", i)
			}
			// legitimate only if the tag still had an unanswered request
			// (from the client's view) when i was sent
			if i < len(st.freeAtSend) && st.freeAtSend[i] {
				bad("spurious-duptag", "request %d used tag %d when every earlier request with that tag had been answered, yet was refused as duplicate", i, st.steps[i].Tag)
			}
		}
	}
	if st.clientEnd != "ok" {
		if len(fs) == 0 {
			bad("client-stuck", "client did not finish: %q; blocked: %s", st.clientEnd, blockedList(e))
		}
	}
	// (whether serving winds down after the client closed is C11's business)
	return "order=" + strings.Join(order, ",") + fmt.Sprintf(" dups=%v", dup), fs
}

func isFlushReply(m p9p.Message) bool {
	if _, ok := m.(p9p.MessageRflush); ok {
		return true
	}
	e, ok := m.(p9p.MessageRerror)
	return ok && strings.Contains(e.Ename, "unknown tag")
}

// flushStepFor finds the first not yet answered Tflush step sent on tag.
func flushStepFor(steps []c06Step, own []int, tag p9p.Tag) int {
	for i, s := range steps {
		if s.Flush && s.Tag == tag && own[i] == 0 {
			return i
		}
	}
	return -1
}

func decodeFrame(f []byte) (*p9p.Fcall, int, error) {
	if len(f) < 7 {
		return nil, 0, fmt.Errorf("short frame % x", f)
	}
	fc, tr, err := refcodecDecode(f[4:])
	return fc, tr, err
}

// c06Plans enumerates tag assignments over {1,2}: request 0 uses tag 1;
// every later request picks a tag, and when that tag was used before it
// either goes out at once (possible duplicate) or after the previous
// user's reply was read (legitimate reuse).
func c06Plans(k int) [][]c06Step {
	var out [][]c06Step
	var rec func(cur []c06Step)
	rec = func(cur []c06Step) {
		if len(cur) == k {
			out = append(out, append([]c06Step{}, cur...))
			return
		}
		i := len(cur)
		for _, tag := range []p9p.Tag{1, 2} {
			prev := -1
			for j := i - 1; j >= 0; j-- {
				if cur[j].Tag == tag {
					prev = j
					break
				}
			}
			if prev < 0 {
				if tag == 2 && !usedTag(cur, 1) {
					continue
				}
				rec(append(cur, c06Step{Tag: tag, Await: -1, Kind: i}))
				continue
			}
			rec(append(cur, c06Step{Tag: tag, Await: -1, Kind: i}))
			rec(append(cur, c06Step{Tag: tag, Await: prev, Kind: i}))
		}
	}
	rec([]c06Step{{Tag: 1, Await: -1, Kind: 0}})
	return out
}

func usedTag(s []c06Step, t p9p.Tag) bool {
	for _, x := range s {
		if x.Tag == t {
			return true
		}
	}
	return false
}

func planName(p []c06Step) string {
	var b strings.Builder
	for _, s := range p {
		if s.Await >= 0 {
			fmt.Fprintf(&b, "w%d.", s.Await)
		}
		fmt.Fprintf(&b, "t%d ", s.Tag)
	}
	return strings.TrimSpace(b.String())
}

func c06Scenarios() []*explore.Scenario {
	var out []*explore.Scenario
	for _, k := range []int{2, 3} {
		for _, p := range c06Plans(k) {
			out = append(out, c06Scenario(fmt.Sprintf("k%d[%s]async", k, planName(p)), p, false, 0))
		}
	}
	for _, p := range c06Plans(2) {
		out = append(out, c06Scenario(fmt.Sprintf("k2[%s]sync", planName(p)), p, true, 0))
	}
	// the same two-request plans with the other request kinds (walk, open,
	// create, attach, auth): a dispatch loop may treat a kind specially
	for _, off := range []int{3, 5, 7, 8} {
		for _, p := range c06Plans(2) {
			q := append([]c06Step{}, p...)
			for i := range q {
				q[i].Kind += off
			}
			out = append(out, c06Scenario(fmt.Sprintf("k2[%s]kinds+%d", planName(p), off), q, false, 0))
		}
	}
	// a Tflush that itself reuses an outstanding tag is a duplicate like any other request
	out = append(out,
		c06Scenario("dup-flush[t1 F1(old1)]", []c06Step{{Tag: 1, Await: -1, Kind: 0}, {Tag: 1, Await: -1, Flush: true, Old: 1}}, false, 1),
		c06Scenario("dup-flush[t1 t2 F2(old2)]", []c06Step{{Tag: 1, Await: -1, Kind: 0}, {Tag: 2, Await: -1, Kind: 2}, {Tag: 2, Await: -1, Flush: true, Old: 2}}, false, 1),
	)
	// a session that is older than the handshake timeout
	out = append(out, c06Scenario("late-timers/[t1 t2]", []c06Step{{Tag: 1, Await: -1, Kind: 0}, {Tag: 2, Await: -1, Kind: 1}}, false, 0))
	out = append(out, c06Pipeline(300))
	return out
}

// c06Pipeline: n requests with distinct tags, all outstanding at once: no
// handler completes before every one of them has been dispatched.
func c06Pipeline(n int) *explore.Scenario {
	var steps []c06Step
	for i := 0; i < n; i++ {
		steps = append(steps, c06Step{Tag: p9p.Tag(i + 1), Await: -1, Kind: i})
	}
	return c06ScenarioH(fmt.Sprintf("pipeline-depth-%d", n), steps, false, func() *scriptHandler { return &scriptHandler{Mode: GateAll, Gate: n} })
}

// Plan is one exploration job: a scenario, its cost model and bound.
type Plan struct {
	Sc    *explore.Scenario
	Delay bool // delay bounding instead of preemption bounding
	Max   int  // bounds 0..Max are explored in turn
	Dev   int  // deviation (fault) bound
}

// both returns, for every scenario, a preemption-bounded and a
// delay-bounded plan.
func both(scs []*explore.Scenario, maxP, maxD, dev int) []Plan {
	var out []Plan
	for _, sc := range scs {
		if maxP >= 0 {
			out = append(out, Plan{Sc: sc, Max: maxP, Dev: dev})
		}
		if maxD >= 0 {
			out = append(out, Plan{Sc: sc, Delay: true, Max: maxD, Dev: dev})
		}
	}
	return out
}

func runScenarios(c *core.Ctx, scs []*explore.Scenario, maxP, dBound int) {
	runPlans(c, both(scs, maxP, -1, dBound))
}

// runPlans explores each plan in its own worker process (iterative
// bounding, happens-before cache) inside the run's budget and reports
// findings. Long plans are started first.
func runPlans(c *core.Ctx, plans []Plan) {
	var scs []*explore.Scenario
	var opts []explore.Options
	maxP, dBound := 0, 0
	for _, p := range plans {
		sc := p.Sc
		if p.Delay {
			sc = explore.WithDelay(sc)
		}
		scs = append(scs, sc)
		opts = append(opts, explore.Options{PBound: p.Max, DBound: p.Dev, Deadline: c.Deadline})
		if p.Max > maxP {
			maxP = p.Max
		}
		if p.Dev > dBound {
			dBound = p.Dev
		}
	}
	res := explore.RunMany(c.Prop, scs, opts, c.Workers)
	incomplete := 0
	bounds := map[string]int{}
	for i, st := range res {
		sc := scs[i]
		if st.Err != "" {
			c.EngineError("%s: %s", sc.Name, st.Err)
			if len(st.Viol) == 0 {
				continue
			}
		}
		c.Count(st.Execs, st.States, st.Steps, st.Execs-st.Pruned)
		for k, v := range st.Outcomes {
			c.Outcome(sc.Name+" "+k, v)
		}
		if st.Horizon > 0 {
			c.NotExhaustive(fmt.Sprintf("%s: step horizon reached in %d executions", sc.Name, st.Horizon))
		}
		for i := range st.Viol {
			v := &st.Viol[i]
			if err := explore.Confirm(sc, v); err != nil {
				c.EngineError("%v", err)
				continue
			}
			c.Violation(v.Sig+"@"+sigScenario(sc.Name), v.Msg, map[string]any{"scenario": sc.Name, "choices": v.Choices, "preemption_bound": v.PBound, "deviation_bound": v.DBound, "log": v.Log, "trace": v.Trace})
		}
		if i < 4 || i == len(res)-1 {
			c.Sample(map[string]any{"scenario": sc.Name, "preemption_bound_completed": st.CompletedP, "executions": st.Execs, "executions_at_last_bound": st.LastExecs, "cut_short_by_state_cache": st.Pruned, "alternatives_skipped_by_state_cache": st.Skipped, "sample_execution": st.Sample})
		}
		fmt.Printf("  scenario %-28s bound_completed=%d executions=%d (last bound %d) cut_by_cache=%d skipped_by_cache=%d outcomes=%d violations=%d\n", sc.Name, st.CompletedP, st.Execs, st.LastExecs, st.Pruned, st.Skipped, len(st.Outcomes), len(st.Viol))
		if opts[i].PBound >= 0 && st.CompletedP < opts[i].PBound && len(st.Viol) == 0 {
			incomplete++
			c.NotExhaustive(fmt.Sprintf("%s: time budget, bound %d completed (target %d)", sc.Name, st.CompletedP, opts[i].PBound))
		}
		bounds[sc.Name] = st.CompletedP
	}
	c.Set("bound_completed_per_scenario", bounds)
	c.Set("cost_models", "name~d = delay bounding (k-th enabled task in round-robin order costs k); otherwise preemption bounding (leaving an enabled task costs 1); ready select cases, rendezvous partners and environment answers are free in both")
	c.Set("deviation_bound", dBound)
	c.Set("scenarios", len(scs))
}

// sigScenario keeps violation signatures stable but scenario-specific
// enough that different failing histories are different violations.
func sigScenario(name string) string { return name }

func c06(c *core.Ctx) {
	c.Budget(90*time.Second, 12*time.Minute)
	c.SetRule("scenarios = every assignment of tags {1,2} to 2 and 3 pipelined requests (repeat of an outstanding tag, and reuse after the reply was read), each explored over all interleavings of the real ServeConn goroutines, handler completions and the scripted client up to the preemption bound; outcome = reply order + duplicate-tag attributions")
	c.Assume("scheduling points at channel, select, mutex, once, sync.Map, context-cancel and conn operations; sequentially consistent interleavings only", "client is scripted with an independent codec; handler results are a function of the request identity")
	scs := c06Scenarios()
	deep := scs[len(scs)-1]
	scs = scs[:len(scs)-1]
	var plans []Plan
	if c.Quick() {
		plans = both(scs, 1, 3, 0)
	} else {
		plans = both(scs, 3, 6, 0)
	}
	plans = append(plans, Plan{Sc: deep, Max: -1}) // full pipelining depth: one (default) schedule
	runPlans(c, plans)
}

// runRaceMode explores the scenarios in race-detector worker processes
// (norace hand-offs, see vsched/handoff_race.go): every schedule up to the
// preemption bound is executed serially and the detector reports each pair
// of unsynchronised accesses that occurs in one of them. A report is
// confirmed by re-executing its schedule.
func runRaceMode(c *core.Ctx, scs []*explore.Scenario, bound int) {
	if _, err := os.Stat(explore.RaceBinary()); err != nil {
		c.Set("race_mode", "race-detector build not present: the data-race clause was NOT decided in this run")
		c.NotExhaustive("race mode unavailable")
		return
	}
	type res struct {
		st   *explore.Stats
		reps []explore.RaceReport
		err  error
	}
	out := make([]res, len(scs))
	var wg sync.WaitGroup
	sem := make(chan struct{}, c.Workers)
	for i, sc := range scs {
		wg.Add(1)
		go func(i int, sc *explore.Scenario) {
			defer wg.Done()
			sem <- struct{}{}
			defer func() { <-sem }()
			st, reps, err := explore.RaceRun(c.Prop, sc, explore.Options{PBound: bound, Deadline: c.Deadline}, true, nil)
			out[i] = res{st, reps, err}
		}(i, sc)
	}
	wg.Wait()
	var execs int64
	sigs := map[string]bool{}
	for i, r := range out {
		sc := scs[i]
		if r.err != nil {
			c.EngineError("race mode %s: %v", sc.Name, r.err)
			continue
		}
		execs += r.st.Execs
		c.Count(r.st.Execs, r.st.States, r.st.Steps, r.st.Execs-r.st.Pruned)
		c.Outcome(fmt.Sprintf("race-mode %s races=%d", sc.Name, len(r.reps)), 1)
		if r.st.CompletedP < bound {
			c.NotExhaustive(fmt.Sprintf("race mode %s: bound %d completed (target %d)", sc.Name, r.st.CompletedP, bound))
		}
		for _, rep := range r.reps {
			if rep.Harness {
				c.EngineError("race mode %s: the detector reported a race involving harness or engine code:\n%s", sc.Name, rep.Text)
				continue
			}
			sig := c.Prop + ":race:" + rep.Sig()
			if sigs[sig] {
				continue
			}
			// confirm: the same pair must be reported again on that schedule
			confirmed := rep.Choices == nil
			if rep.Choices != nil {
				for k := 0; k < 2 && !confirmed; k++ {
					_, again, err := explore.RaceRun(c.Prop, sc, explore.Options{PBound: 0, NoCache: true}, false, [][]int{rep.Choices})
					if err == nil {
						for _, a := range again {
							if a.Sig() == rep.Sig() {
								confirmed = true
							}
						}
					}
				}
			}
			if !confirmed {
				c.EngineError("race mode %s: report %s did not reproduce on its schedule %v", sc.Name, rep.Sig(), rep.Choices)
				continue
			}
			sigs[sig] = true
			c.Violation(sig, fmt.Sprintf("data race between %s and %s (scenario %s, schedule %v)\n%s", rep.Sites[0], rep.Sites[1], sc.Name, rep.Choices, rep.Text),
				map[string]any{"scenario": sc.Name, "choices": rep.Choices, "race_mode": true, "sites": rep.Sites, "report": rep.Text})
		}
	}
	c.Set("race_mode", fmt.Sprintf("%d scenarios explored to preemption bound %d in race-detector workers with norace hand-offs: %d executions, %d distinct race(s)", len(scs), bound, execs, len(sigs)))
}
