package props

import (
	"context"
	"fmt"
	"strings"
	"time"

	p9p "github.com/frobnitzem/go-p9p"
	"github.com/frobnitzem/go-p9p/zzverif/core"
	"github.com/frobnitzem/go-p9p/zzverif/explore"
	"github.com/frobnitzem/go-p9p/zzverif/mockfs"
	"github.com/frobnitzem/go-p9p/zzverif/refcodec"
	"github.com/frobnitzem/go-p9p/zzverif/vconn"
	"github.com/frobnitzem/go-p9p/zzverif/vsched"
)

func init() {
	Registry["C11"] = c11
	ScenarioFns["C11"] = c11Scenarios
}

type stopCounter struct {
	p9p.Session
	stops int
}

func (s *stopCounter) Stop(err error) error {
	s.stops++
	vsched.Logf("stop #%d", s.stops)
	return s.Session.Stop(err)
}

type c11Spec struct {
	Name      string
	Prelude   []p9p.Message // requests answered before the fault window (attach, walk, open ...)
	InFlight  []p9p.Message // requests sent without waiting for replies
	Fault     string        // close | cancel | writefault | readfault
	BlockRead bool          // file reads block until their context is done
	ReadBack  int           // replies the client still reads before closing (close fault)
	Stalled   bool          // the peer stops reading after the prelude: the server's writer blocks in the middle of a reply
}

type c11State struct {
	spec     *c11Spec
	fs       *mockfs.FS
	inner    p9p.Session
	sess     *stopCounter
	cli, srv *vconn.Conn
	ctx      context.Context
	cancel   context.CancelFunc
	served   bool
	serveErr error
	client   string
	got      int
}

func c11Scenario(sp c11Spec) *explore.Scenario {
	spec := sp
	return &explore.Scenario{
		Name:  spec.Name,
		Cache: true,
		Body: func() any {
			st := &c11State{spec: &spec, fs: mockfs.New()}
			st.fs.Concurrent = true // entry and exit of every file-system call are scheduling points on the entry
			st.fs.BlockRead = spec.BlockRead
			st.inner = p9p.SFileSys(st.fs)
			st.sess = &stopCounter{Session: st.inner}
			st.cli, st.srv = vconn.PipeDirs(false, spec.Stalled)
			st.cli.Name, st.srv.Name = "cli", "srv"
			st.ctx, st.cancel = vsched.WithCancel(context.Background())
			vsched.Go("serve", func() {
				st.serveErr = p9p.ServeConn(st.ctx, st.srv, p9p.SSession(st.sess))
				st.served = true
				vsched.Logf("serve returned")
			})
			vsched.Go("client", func() {
				send := func(tag p9p.Tag, m p9p.Message) bool {
					_, err := st.cli.Write(refcodec.EncodeFrame(tag, m))
					return err == nil
				}
				if !send(p9p.NOTAG, p9p.MessageTversion{MSize: 8192, Version: "9P2000"}) {
					st.client = "write failed"
					return
				}
				if _, err := st.cli.ReadFrame(); err != nil {
					st.client = "no Rversion"
					return
				}
				for i, m := range spec.Prelude {
					if !send(p9p.Tag(i+1), m) {
						st.client = "write failed"
						return
					}
					if _, err := st.cli.ReadFrame(); err != nil {
						st.client = "stream ended in prelude"
						return
					}
				}
				// from here on the fault may strike at any moment
				switch spec.Fault {
				case "writefault":
					st.srv.SetFaulty(false, true)
				case "readfault":
					st.srv.SetFaulty(true, false)
				case "cancel":
					vsched.Go("cancel-serving", func() { st.cancel() })
				}
				for i, m := range spec.InFlight {
					if !send(p9p.Tag(100+i), m) {
						st.client = "peer gone"
						return
					}
				}
				if spec.Stalled {
					// read nothing any more; keep the connection open until
					// serving has ended (the fault is the cancellation)
					vsched.WaitFor("client.stalled", st.cli.ReadObj(), func() bool { return st.served })
					st.cli.Close()
					st.client = "stalled"
					return
				}
				if spec.Fault == "close" {
					for i := 0; i < spec.ReadBack; i++ {
						if _, err := st.cli.ReadFrame(); err != nil {
							break
						}
						st.got++
					}
					st.cli.Close()
					st.client = "closed"
					return
				}
				// otherwise read every reply (fewer if the server goes away
				// first), then disconnect
				for st.got < len(spec.InFlight) {
					f, err := st.cli.ReadFrameOr(func() bool { return st.served })
					if err != nil || f == nil {
						break
					}
					st.got++
				}
				st.cli.Close()
				st.client = "drained"
			})
			return st
		},
		Check: c11Check,
	}
}

func c11Check(state any, e *vsched.Exec) (string, []explore.Finding) {
	st := state.(*c11State)
	var fs []explore.Finding
	bad := func(sig, format string, a ...any) {
		fs = append(fs, explore.Finding{Sig: "C11:" + sig, Msg: fmt.Sprintf(format, a...) + "\nlog: " + strings.Join(e.Log, " | ") + "\nfs calls: " + strings.Join(st.fs.Calls, " ")})
	}
	if len(e.Panics) > 0 {
		bad("panic", "the server process would crash: %s\n%s", panicList(e), e.Panics[0].Stack)
		return "panic", fs
	}
	if e.Horizon {
		return "horizon", fs
	}
	// Deviation-driven faults are optional: in an execution where none
	// struck and a handler blocks for ever by design, idling is legitimate.
	faulted := st.spec.Fault == "close" || st.spec.Fault == "cancel" || st.srv.Faulted() || st.client == "drained"
	if !faulted && !st.served {
		return "no-fault-idle", fs
	}
	if !st.served {
		var who []string
		for _, b := range e.Blocked {
			who = append(who, b.Task+" at "+b.Op)
		}
		sig := "serve-never-returns"
		for _, b := range e.Blocked {
			if strings.Contains(b.Task, "serve") && !strings.Contains(b.Task, "serveconn.go") {
				sig += ":" + b.Op
			}
		}
		bad(sig, "the connection failed / was closed / serving was cancelled, every handler returned or is cancellable, yet ServeConn has not returned; blocked: %s", strings.Join(who, "; "))
		return "serve-stuck", fs
	}
	if len(e.Blocked) > 0 {
		// ServeConn returned but something it started is still parked
		var who []string
		for _, b := range e.Blocked {
			who = append(who, b.Task+" at "+b.Op)
		}
		sig := "handler-not-cancelled"
		if !strings.Contains(strings.Join(who, ";"), "fs.Read.block") {
			sig = "leftover-task"
		}
		bad(sig, "ServeConn returned but tasks it started are still blocked (an in-flight handler whose context was never cancelled stays blocked for ever): %s", strings.Join(who, "; "))
	}
	if st.sess.stops != 1 {
		bad("stop-count", "the stop callback ran %d times (must be exactly once)", st.sess.stops)
	}
	for _, p := range st.fs.Problems {
		bad("fs:"+firstWords(p), "the file system observed: %s", p)
	}
	// after stop, with every handler returned: nothing bound, everything released once
	if len(e.Blocked) == 0 {
		fids, _ := p9p.VerifFids(st.inner)
		for _, f := range fids {
			if f.Bound || f.Locked {
				bad("bound-after-stop", "fid %d is still bound (locked=%v) after Stop and after every handler returned", f.Fid, f.Locked)
			}
		}
		for _, h := range st.fs.Handles {
			if h.Released != 1 {
				bad("release-count", "entry #%d (%s) handed to the session was released %d times (must be exactly once after stop)", h.ID, h.PathStr, h.Released)
			}
		}
	}
	return fmt.Sprintf("client=%s replies=%d stops=%d handles=%d", st.client, st.got, st.sess.stops, len(st.fs.Handles)), fs
}

func c11Specs() []c11Spec {
	attach := p9p.MessageTattach{Fid: 0, Afid: p9p.NOFID, Uname: "u"}
	walkAB := p9p.MessageTwalk{Fid: 0, Newfid: 1, Wnames: []string{"a", "b"}}
	open1 := p9p.MessageTopen{Fid: 1, Mode: p9p.OREAD}
	read1 := p9p.MessageTread{Fid: 1, Offset: 0, Count: 8}
	walkNew := p9p.MessageTwalk{Fid: 0, Newfid: 2, Wnames: []string{"a"}}
	stat0 := p9p.MessageTstat{Fid: 0}
	clunk0 := p9p.MessageTclunk{Fid: 0}
	var out []c11Spec
	for _, fault := range []string{"close", "cancel", "writefault", "readfault"} {
		out = append(out,
			c11Spec{Name: "idle/" + fault, Prelude: []p9p.Message{attach}, Fault: fault},
			c11Spec{Name: "stat/" + fault, Prelude: []p9p.Message{attach}, InFlight: []p9p.Message{stat0}, Fault: fault},
			c11Spec{Name: "walknew/" + fault, Prelude: []p9p.Message{attach}, InFlight: []p9p.Message{walkNew}, Fault: fault},
			c11Spec{Name: "attach-inflight/" + fault, InFlight: []p9p.Message{attach}, Fault: fault},
			c11Spec{Name: "blockedread/" + fault, Prelude: []p9p.Message{attach, walkAB, open1}, InFlight: []p9p.Message{read1}, Fault: fault, BlockRead: true},
			c11Spec{Name: "stat+clunk/" + fault, Prelude: []p9p.Message{attach}, InFlight: []p9p.Message{stat0, clunk0}, Fault: fault},
			// a flush of the blocked read is itself in flight when the fault strikes
			c11Spec{Name: "blockedread+flush/" + fault, Prelude: []p9p.Message{attach, walkAB, open1}, InFlight: []p9p.Message{read1, p9p.MessageTflush{Oldtag: 100}}, Fault: fault, BlockRead: true},
		)
	}
	out = append(out,
		c11Spec{Name: "stat+walknew/close-after-1", Prelude: []p9p.Message{attach}, InFlight: []p9p.Message{stat0, walkNew}, Fault: "close", ReadBack: 1},
		// a clunk queued behind the blocked read on the same fid, then the flush that releases both
		c11Spec{Name: "blockedread+clunk+flush/close", Prelude: []p9p.Message{attach, walkAB, open1}, InFlight: []p9p.Message{read1, p9p.MessageTclunk{Fid: 1}, p9p.MessageTflush{Oldtag: 100}}, Fault: "close", BlockRead: true, ReadBack: 2}, // the flushed read is not answered: two replies at most
		c11Spec{Name: "blockedread+clunk+flush/cancel", Prelude: []p9p.Message{attach, walkAB, open1}, InFlight: []p9p.Message{read1, p9p.MessageTclunk{Fid: 1}, p9p.MessageTflush{Oldtag: 100}}, Fault: "cancel", BlockRead: true},
		// the peer has stopped reading: the writer is blocked in the middle of a reply when serving is cancelled
		c11Spec{Name: "stat/cancel-while-writer-blocked", Prelude: []p9p.Message{attach}, InFlight: []p9p.Message{stat0}, Fault: "cancel", Stalled: true},
		c11Spec{Name: "stat+stat/cancel-while-writer-blocked", Prelude: []p9p.Message{attach}, InFlight: []p9p.Message{stat0, stat0}, Fault: "cancel", Stalled: true},
		c11Spec{Name: "blockedread+stat/cancel", Prelude: []p9p.Message{attach, walkAB, open1}, InFlight: []p9p.Message{read1, stat0}, Fault: "cancel", BlockRead: true},
	)
	// hundreds of fids bound when the peer disconnects: Stop's sweep at scale
	// (one schedule; the interleavings of Stop are C13's business)
	manyPrelude := []p9p.Message{attach}
	for i := 1; i <= 150; i++ {
		manyPrelude = append(manyPrelude, p9p.MessageTwalk{Fid: 0, Newfid: p9p.Fid(i)})
	}
	out = append(out, c11Spec{Name: "many-fids-150/close", Prelude: manyPrelude, Fault: "close"})
	return out
}

func c11Scenarios() []*explore.Scenario {
	var out []*explore.Scenario
	for _, sp := range c11Specs() {
		out = append(out, c11Scenario(sp))
	}
	return out
}

func c11(c *core.Ctx) {
	c.Budget(180*time.Second, 14*time.Minute)
	c.SetRule("scenarios: ServeConn(SSession(SFileSys(mock))) after negotiation, with nothing / stat / walk-to-new-fid / attach / a read blocked until cancelled (alone, with its own flush, with a clunk of the same fid and the flush) / stat+clunk in flight; 150 fids bound at the disconnect (one schedule); one fault: peer close (after 0-1 replies), cancellation of the serving context, a write error on any reply, a read error on any read (the latter two as 1 deviation placed at every conn call); file-system calls complete at scheduling points; every interleaving up to the bound. Oracle at quiescence: ServeConn returned, no task it started is still blocked (a handler blocked on its context proves it was not cancelled), Stop ran exactly once, no panic, and with every handler returned no fid is bound and every entry handed to the session was released exactly once. outcome = client end state + replies + handles")
	c.Assume("'bounded time' is decided as quiescence with the environment frozen: ServeConn still parked when nothing is enabled is a hang", "handlers return once cancelled (the mock's blocking read returns on ctx.Done())")
	var plans []Plan
	for _, sp := range c11Specs() {
		sc := c11Scenario(sp)
		dev := 0
		if sp.Fault == "writefault" || sp.Fault == "readfault" {
			dev = 1
		}
		if strings.HasPrefix(sp.Name, "many-fids") {
			sc.MaxSteps = 400000
			plans = append(plans, Plan{Sc: sc, Max: -1})
			continue
		}
		if c.Quick() {
			plans = append(plans, Plan{Sc: sc, Delay: true, Max: 3, Dev: dev}, Plan{Sc: sc, Max: 1, Dev: dev})
		} else {
			plans = append(plans, Plan{Sc: sc, Delay: true, Max: 5, Dev: dev}, Plan{Sc: sc, Max: 2, Dev: dev})
		}
	}
	runPlans(c, plans)
}
