package props

import (
	"bytes"
	"context"
	"fmt"
	"os"
	"path/filepath"
	"runtime"
	"sort"
	"strings"
	"syscall"
	"time"

	p9p "github.com/frobnitzem/go-p9p"
	"github.com/frobnitzem/go-p9p/ufs"
	"github.com/frobnitzem/go-p9p/zzverif/core"
	"github.com/frobnitzem/go-p9p/zzverif/explore"
)

func init() { Registry["C19"] = c19 }

// HOp is one operation issued through a ufs session (and mirrored on the
// twin directory with direct OS calls).
type HOp struct {
	Kind string // create mkdir open read write close truncate chmod rename remove
	Path string // slash path relative to the export root
	To   string // rename: new base name
	Perm uint32
	Mode p9p.Flag
	Off  int64
	N    int
}

func (o HOp) String() string {
	switch o.Kind {
	case "create":
		return fmt.Sprintf("create(%s,%#o,mode=%#x)", o.Path, o.Perm, uint8(o.Mode))
	case "mkdir":
		return fmt.Sprintf("mkdir(%s,%#o)", o.Path, o.Perm)
	case "open":
		return fmt.Sprintf("open(%s,mode=%#x)", o.Path, uint8(o.Mode))
	case "read", "write":
		return fmt.Sprintf("%s(off=%d,n=%d)", o.Kind, o.Off, o.N)
	case "truncate":
		return fmt.Sprintf("truncate(%s,%d)", o.Path, o.Off)
	case "chmod":
		return fmt.Sprintf("chmod(%s,%#o)", o.Path, o.Perm)
	case "rename":
		return fmt.Sprintf("rename(%s->%s)", o.Path, o.To)
	case "wstat":
		return fmt.Sprintf("wstat(%s,mode=%#o,length=%d,name=%q)", o.Path, o.Perm, o.Off, o.To)
	}
	return fmt.Sprintf("%s(%s)", o.Kind, o.Path)
}

// oflagsRef: 9P open mode -> host flags, from open(5) (independent of ufs/util.go).
func oflagsRef(m p9p.Flag) int {
	f := map[p9p.Flag]int{0: os.O_RDONLY, 1: os.O_WRONLY, 2: os.O_RDWR, 3: os.O_RDONLY}[m&3]
	if m&0x10 != 0 {
		f |= os.O_TRUNC
	}
	return f
}

type c19Run struct {
	dir, export, twin string
	sess              p9p.Session
	// the one open fid (fid 5) and its twin descriptor
	openPath string
	openMode p9p.Flag
	twinFile *os.File
	step     int
}

func newC19Run() (*c19Run, error) {
	d, err := os.MkdirTemp(scratchBase(), "c19-")
	if err != nil {
		return nil, err
	}
	r := &c19Run{dir: d, export: filepath.Join(d, "export"), twin: filepath.Join(d, "twin")}
	os.Mkdir(r.export, 0755)
	os.Mkdir(r.twin, 0755)
	// both trees start with a dot-file and a dot-directory with one file in
	// it (they are ordinary names to 9P: listings must show them)
	for _, root := range []string{r.export, r.twin} {
		os.WriteFile(filepath.Join(root, ".profile"), []byte("dot"), 0644)
		os.Mkdir(filepath.Join(root, ".cfg"), 0755)
		os.WriteFile(filepath.Join(root, ".cfg", "x"), []byte("cfg"), 0600)
	}
	ctx := context.Background()
	r.sess = p9p.SFileSys(ufs.NewServer(ctx, r.export))
	if _, err := r.sess.Attach(ctx, 0, p9p.NOFID, "u", ""); err != nil {
		return nil, err
	}
	return r, nil
}

func (r *c19Run) close() {
	if r.twinFile != nil {
		r.twinFile.Close()
	}
	r.sess.Stop(nil)
	os.RemoveAll(r.dir)
}

func splitPath(p string) []string { return strings.Split(p, "/") }

// walkTo binds fid to path through a fresh walk from the root.
func (r *c19Run) walkTo(fid p9p.Fid, path string) error {
	ctx := context.Background()
	var names []string
	if path != "" {
		names = splitPath(path)
	}
	q, err := r.sess.Walk(ctx, 0, fid, names...)
	if err != nil {
		return err
	}
	if len(q) != len(names) {
		return fmt.Errorf("partial walk")
	}
	return nil
}

func wpayload(n, step int) []byte {
	b := make([]byte, n)
	for i := range b {
		b[i] = "pqrstuvw"[(i+step)%8]
	}
	return b
}

// do applies o to the session and to the twin; ok tells whether both agree
// on success; skip: the operation is not applicable in this state.
func (r *c19Run) do(o HOp) (mismatch string, skip bool) {
	ctx := context.Background()
	r.step++
	tp := func(p string) string { return filepath.Join(r.twin, filepath.FromSlash(p)) }
	var ierr, terr error
	switch o.Kind {
	case "create", "mkdir":
		if r.openPath != "" {
			return "", true
		}
		parent, name := "", o.Path
		if i := strings.LastIndex(o.Path, "/"); i >= 0 {
			parent, name = o.Path[:i], o.Path[i+1:]
		}
		perm := o.Perm
		if o.Kind == "mkdir" {
			perm |= p9p.DMDIR
		}
		if ierr = r.walkTo(5, parent); ierr == nil {
			_, _, ierr = r.sess.Create(ctx, 5, name, perm, o.Mode)
			if ierr != nil || o.Kind == "mkdir" {
				r.sess.Clunk(ctx, 5)
			}
		}
		if _, perr := os.Stat(tp(parent)); perr != nil {
			terr = perr
		} else if o.Kind == "mkdir" {
			terr = os.Mkdir(tp(o.Path), os.FileMode(o.Perm&0777))
		} else {
			var f *os.File
			f, terr = os.OpenFile(tp(o.Path), oflagsRef(o.Mode)|os.O_CREATE, os.FileMode(o.Perm&0777))
			if terr == nil {
				if ierr == nil {
					r.twinFile, r.openPath, r.openMode = f, o.Path, o.Mode
				} else {
					f.Close()
				}
			}
		}
		if ierr == nil && terr != nil && o.Kind == "create" {
			r.sess.Clunk(ctx, 5)
		}
	case "open":
		if r.openPath != "" {
			return "", true
		}
		if fi, err := os.Stat(tp(o.Path)); err != nil || fi.IsDir() {
			return "", true
		}
		if ierr = r.walkTo(5, o.Path); ierr == nil {
			if _, _, ierr = r.sess.Open(ctx, 5, o.Mode); ierr != nil {
				r.sess.Clunk(ctx, 5)
			}
		}
		var f *os.File
		f, terr = os.OpenFile(tp(o.Path), oflagsRef(o.Mode), 0)
		if terr == nil {
			if ierr == nil {
				r.twinFile, r.openPath, r.openMode = f, o.Path, o.Mode
			} else {
				f.Close()
			}
		} else if ierr == nil {
			r.sess.Clunk(ctx, 5)
		}
	case "read":
		if r.openPath == "" || r.openMode&3 == p9p.OWRITE {
			return "", true
		}
		ib, tb := make([]byte, o.N), make([]byte, o.N)
		var in, tn int
		in, ierr = r.sess.Read(ctx, 5, ib, o.Off)
		tn, terr = r.twinFile.ReadAt(tb, o.Off)
		if terr != nil && terr.Error() == "EOF" {
			terr = nil
		}
		if ierr == nil && terr == nil && !bytes.Equal(ib[:in], tb[:tn]) {
			return fmt.Sprintf("%s through the fid returned %q, the host file holds %q there", o, ib[:in], tb[:tn]), false
		}
	case "write":
		if r.openPath == "" || (r.openMode&3 != p9p.OWRITE && r.openMode&3 != p9p.ORDWR) {
			return "", true
		}
		if fi, _ := r.twinFile.Stat(); fi != nil && fi.Size()+int64(o.N) > 12 && o.Off >= fi.Size() {
			return "", true // keep files small
		}
		p := wpayload(o.N, r.step)
		var in, tn int
		in, ierr = r.sess.Write(ctx, 5, p, o.Off)
		tn, terr = r.twinFile.WriteAt(p, o.Off)
		if ierr == nil && terr == nil && in != tn {
			return fmt.Sprintf("%s returned %d, the host wrote %d", o, in, tn), false
		}
	case "close":
		if r.openPath == "" {
			return "", true
		}
		ierr = r.sess.Clunk(ctx, 5)
		terr = r.twinFile.Close()
		r.twinFile, r.openPath = nil, ""
	case "truncate", "chmod", "rename", "remove", "wstat":
		if _, err := os.Lstat(tp(o.Path)); err != nil {
			return "", true
		}
		if o.Kind == "wstat" {
			// one wstat changing several things at once: judged where each of
			// the equivalent direct operations succeeds (a regular file, the
			// new name free or a regular file), so that their order is immaterial
			if fi, err := os.Lstat(tp(o.Path)); err != nil || !fi.Mode().IsRegular() {
				return "", true
			}
			if o.To != "" {
				if fi, err := os.Lstat(filepath.Join(filepath.Dir(tp(o.Path)), o.To)); err == nil && !fi.Mode().IsRegular() {
					return "", true
				}
			}
		}
		fid := p9p.Fid(6)
		viaOpen := r.openPath == o.Path
		if r.openPath != "" && !viaOpen && strings.HasPrefix(r.openPath, o.Path+"/") {
			return "", true // renaming/removing a directory above the open file: aliased paths are outside the statement
		}
		if viaOpen {
			fid = 5 // one live fid per renamed/removed file
		} else if ierr = r.walkTo(6, o.Path); ierr != nil {
			return fmt.Sprintf("cannot walk to existing %s: %v", o.Path, ierr), false
		}
		switch o.Kind {
		case "truncate":
			ierr = r.sess.WStat(ctx, fid, p9p.Dir{Mode: ^uint32(0), Length: uint64(o.Off)})
			terr = os.Truncate(tp(o.Path), o.Off)
		case "chmod":
			ierr = r.sess.WStat(ctx, fid, p9p.Dir{Mode: o.Perm, Length: ^uint64(0)})
			terr = os.Chmod(tp(o.Path), os.FileMode(o.Perm&0777))
		case "wstat":
			d := p9p.Dir{Mode: ^uint32(0), Length: ^uint64(0), Name: o.To}
			if o.Perm != 0 {
				d.Mode = o.Perm
			}
			if o.Off >= 0 {
				d.Length = uint64(o.Off)
			}
			ierr = r.sess.WStat(ctx, fid, d)
			if o.Perm != 0 {
				terr = os.Chmod(tp(o.Path), os.FileMode(o.Perm&0777))
			}
			if o.Off >= 0 && terr == nil {
				terr = os.Truncate(tp(o.Path), o.Off)
			}
			if o.To != "" && terr == nil {
				terr = syscall.Rename(tp(o.Path), filepath.Join(filepath.Dir(tp(o.Path)), o.To))
				if viaOpen && ierr == nil && terr == nil {
					r.openPath = strings.TrimPrefix(filepath.ToSlash(filepath.Join(filepath.Dir(o.Path), o.To)), "./")
				}
			}
		case "rename":
			ierr = r.sess.WStat(ctx, fid, p9p.Dir{Mode: ^uint32(0), Length: ^uint64(0), Name: o.To})
			// rename(2) itself: Go's os.Rename adds a check of its own
			// (it refuses an existing directory as target), which is not
			// part of "the equivalent direct OS operation"
			terr = syscall.Rename(tp(o.Path), filepath.Join(filepath.Dir(tp(o.Path)), o.To))
			if viaOpen && ierr == nil && terr == nil {
				r.openPath = strings.TrimPrefix(filepath.ToSlash(filepath.Join(filepath.Dir(o.Path), o.To)), "./")
			}
		case "remove":
			ierr = r.sess.Remove(ctx, fid)
			if viaOpen {
				r.twinFile.Close()
				r.twinFile, r.openPath = nil, ""
			}
			terr = os.Remove(tp(o.Path))
			fid = 0 // remove clunks
		}
		if fid == 6 {
			r.sess.Clunk(ctx, 6)
		}
	}
	if (ierr == nil) != (terr == nil) {
		return fmt.Sprintf("%s: through ufs err=%v, the equivalent direct OS operation err=%v", o, ierr, terr), false
	}
	return "", false
}

// observe compares the export with the twin, and what freshly walked fids
// report with the host's own view of the export.
func (r *c19Run) observe() string {
	ctx := context.Background()
	var diff string
	note := func(format string, a ...any) {
		if diff == "" {
			diff = fmt.Sprintf(format, a...)
		}
	}
	var walk func(rel string)
	walk = func(rel string) {
		ep, tp := filepath.Join(r.export, rel), filepath.Join(r.twin, rel)
		ee, _ := os.ReadDir(ep)
		te, _ := os.ReadDir(tp)
		names := func(es []os.DirEntry) string {
			var s []string
			for _, e := range es {
				s = append(s, e.Name())
			}
			sort.Strings(s)
			return strings.Join(s, ",")
		}
		if names(ee) != names(te) {
			note("directory /%s holds {%s}, direct OS operations would leave {%s}", rel, names(ee), names(te))
			return
		}
		// listing through a freshly walked fid
		if err := r.walkTo(7, filepath.ToSlash(rel)); err != nil {
			note("cannot walk to directory /%s: %v", rel, err)
			return
		}
		var listed []string
		if _, _, err := r.sess.Open(ctx, 7, p9p.OREAD); err == nil {
			off := int64(0)
			for i := 0; i < 20; i++ {
				buf := make([]byte, 4096)
				n, err := r.sess.Read(ctx, 7, buf, off)
				if err != nil || n == 0 {
					break
				}
				off += int64(n)
				rd := bytes.NewReader(buf[:n])
				for rd.Len() > 0 {
					var d p9p.Dir
					if err := p9p.DecodeDir(p9p.NewCodec(), rd, &d); err != nil {
						note("undecodable listing of /%s: %v", rel, err)
						break
					}
					fi, err := os.Lstat(filepath.Join(ep, d.Name))
					if err != nil {
						note("listing of /%s contains %q which the host does not have", rel, d.Name)
						continue
					}
					if d.Mode&0777 != uint32(fi.Mode().Perm()) || (d.Mode&p9p.DMDIR != 0) != fi.IsDir() || (!fi.IsDir() && d.Length != uint64(fi.Size())) {
						note("listing entry %q of /%s says mode %#o dir=%v length %d, the host says %#o dir=%v size %d", d.Name, rel, d.Mode&0777, d.Mode&p9p.DMDIR != 0, d.Length, fi.Mode().Perm(), fi.IsDir(), fi.Size())
					}
					listed = append(listed, d.Name)
				}
			}
		} else {
			note("cannot open directory /%s: %v", rel, err)
		}
		r.sess.Clunk(ctx, 7)
		sort.Strings(listed)
		if strings.Join(listed, ",") != names(ee) {
			note("listing of /%s through a fresh fid is {%s}, the host directory holds {%s}", rel, strings.Join(listed, ","), names(ee))
		}
		for _, e := range ee {
			sub := filepath.Join(rel, e.Name())
			efi, err1 := os.Lstat(filepath.Join(r.export, sub))
			tfi, err2 := os.Lstat(filepath.Join(r.twin, sub))
			if err1 != nil || err2 != nil {
				continue
			}
			if efi.IsDir() != tfi.IsDir() || efi.Mode().Perm() != tfi.Mode().Perm() {
				note("/%s is %v, direct OS operations would leave %v", sub, efi.Mode(), tfi.Mode())
			}
			// stat through a freshly walked fid vs the host
			if err := r.walkTo(7, filepath.ToSlash(sub)); err != nil {
				note("cannot walk to existing /%s: %v", sub, err)
				continue
			}
			if d, err := r.sess.Stat(ctx, 7); err != nil {
				note("stat /%s: %v", sub, err)
			} else if d.Name != e.Name() || d.Mode&0777 != uint32(efi.Mode().Perm()) || (d.Mode&p9p.DMDIR != 0) != efi.IsDir() ||
				(!efi.IsDir() && d.Length != uint64(efi.Size())) || d.ModTime.Unix() != efi.ModTime().Unix() {
				note("stat of /%s through a fresh fid: name %q mode %#o length %d mtime %d; host: %q %#o %d %d", sub, d.Name, d.Mode&0777, d.Length, d.ModTime.Unix(), e.Name(), efi.Mode().Perm(), efi.Size(), efi.ModTime().Unix())
			}
			if efi.IsDir() {
				r.sess.Clunk(ctx, 7)
				walk(sub)
				continue
			}
			ec, _ := os.ReadFile(filepath.Join(r.export, sub))
			tc, _ := os.ReadFile(filepath.Join(r.twin, sub))
			if !bytes.Equal(ec, tc) {
				note("file /%s holds %q, direct OS operations would leave %q", sub, ec, tc)
			}
			// content through a fresh fid
			if _, _, err := r.sess.Open(ctx, 7, p9p.OREAD); err == nil {
				buf := make([]byte, 64)
				n, _ := r.sess.Read(ctx, 7, buf, 0)
				if !bytes.Equal(buf[:n], ec) {
					note("reading /%s through a fresh fid gives %q, the host file holds %q", sub, buf[:n], ec)
				}
			}
			r.sess.Clunk(ctx, 7)
		}
	}
	walk("")
	return diff
}

func (r *c19Run) key() string {
	var sb strings.Builder
	filepath.Walk(r.twin, func(p string, fi os.FileInfo, err error) error {
		if err != nil {
			return nil
		}
		fmt.Fprintf(&sb, "%s:%v", p[len(r.twin):], fi.Mode())
		if fi.Mode().IsRegular() {
			b, _ := os.ReadFile(p)
			fmt.Fprintf(&sb, "=%s", b)
		}
		sb.WriteString(";")
		return nil
	})
	fmt.Fprintf(&sb, "|open=%s,%d", r.openPath, r.openMode)
	return sb.String()
}

func c19Ops(rich bool) []HOp {
	var ops []HOp
	files := []string{"a", "b", "d/a"}
	modes := []p9p.Flag{p9p.OREAD, p9p.OWRITE, p9p.ORDWR, p9p.OWRITE | p9p.OTRUNC}
	if rich {
		modes = append(modes, p9p.OEXEC, p9p.ORDWR|p9p.OTRUNC, p9p.OREAD|p9p.OTRUNC)
	}
	perms := []uint32{0644, 0600}
	if rich {
		perms = append(perms, 0755, 0444)
	}
	for _, f := range files {
		for _, p := range perms {
			ops = append(ops, HOp{Kind: "create", Path: f, Perm: p, Mode: p9p.ORDWR})
		}
		ops = append(ops, HOp{Kind: "create", Path: f, Perm: 0644, Mode: p9p.OWRITE | p9p.OTRUNC})
		for _, m := range modes {
			ops = append(ops, HOp{Kind: "open", Path: f, Mode: m})
		}
		ops = append(ops, HOp{Kind: "truncate", Path: f, Off: 0}, HOp{Kind: "truncate", Path: f, Off: 2}, HOp{Kind: "truncate", Path: f, Off: 7},
			HOp{Kind: "chmod", Path: f, Perm: 0600}, HOp{Kind: "chmod", Path: f, Perm: 0755}, HOp{Kind: "remove", Path: f})
	}
	ops = append(ops, HOp{Kind: "mkdir", Path: "d", Perm: 0755}, HOp{Kind: "mkdir", Path: "d", Perm: 0777}, HOp{Kind: "mkdir", Path: "b", Perm: 0700},
		HOp{Kind: "remove", Path: "d"}, HOp{Kind: "chmod", Path: "d", Perm: 0711},
		HOp{Kind: "rename", Path: "a", To: "b"}, HOp{Kind: "rename", Path: "b", To: "a"}, HOp{Kind: "rename", Path: "a", To: "c"},
		HOp{Kind: "rename", Path: "d", To: "e"}, HOp{Kind: "rename", Path: "d/a", To: "b"}, HOp{Kind: "close"},
		// renames the host refuses (a file onto a directory, a directory onto a file): the fid must keep naming the old file
		HOp{Kind: "rename", Path: "a", To: "d"}, HOp{Kind: "rename", Path: "d", To: "a"},
		// several changes in one wstat (mode 0: unchanged; length -1: unchanged; name "": unchanged)
		HOp{Kind: "wstat", Path: "a", Perm: 0600, Off: 2, To: "c"}, HOp{Kind: "wstat", Path: "a", Off: 0, To: "b"},
		HOp{Kind: "wstat", Path: "a", Perm: 0755, Off: 7}, HOp{Kind: "wstat", Path: "b", Perm: 0600, Off: -1, To: "a"},
		HOp{Kind: "wstat", Path: "d/a", Off: 2, To: "b"})
	for _, off := range []int64{0, 1, 3} {
		for _, n := range []int{0, 1, 5} {
			ops = append(ops, HOp{Kind: "read", Off: off, N: n}, HOp{Kind: "write", Off: off, N: n})
		}
	}
	ops = append(ops, HOp{Kind: "read", Off: 6, N: 5}, HOp{Kind: "write", Off: 6, N: 1})
	return ops
}

func c19(c *core.Ctx) {
	c.Budget(150*time.Second, 12*time.Minute)
	c.SetRule("breadth-first search over histories of create (perm x mode incl. OTRUNC) / mkdir / open (4-7 modes) / read+write through the open fid at offsets {0,1,3,6} x lengths {0,1,5} / close / truncate / chmod / rename / several of these in one wstat / remove on paths {a, b, d, d/a} through a real ufs session on a private temp tree, (every explored history is followed, on its discarded instance, by probe requests through the live fid: chmod, read, truncate) mirrored step by step on a twin directory with the equivalent direct OS calls from an independent 9P->host table; after every step: both agree on success, data read through the fid equals the twin's, the exported tree equals the twin (names, types, permission bits, contents), and listings, stats and contents obtained through freshly walked fids equal the host's own view of the export (incl. whole-second mtime); states with equal twin tree + open fid are merged")
	c.Assume("runs as root on tmpfs (no permission denials); both trees live in the same process (same umask)", "one live fid per renamed/removed file; renaming a directory above the open file is outside the statement")
	ops := c19Ops(!c.Quick())
	depth := 5
	if !c.Quick() {
		depth = 6
	}
	st := explore.BFS(explore.SeqSpec[HOp]{
		Ops: func(key string, hist []HOp) []HOp { return ops },
		Exec: func(hist []HOp) explore.SeqResult[HOp] {
			var res explore.SeqResult[HOp]
			r, err := newC19Run()
			if err != nil {
				res.Dead, res.Key = true, "error"
				res.Findings = []explore.Finding{{Sig: "C19:harness", Msg: err.Error()}}
				return res
			}
			defer r.close()
			hs := func() string {
				var s []string
				for _, o := range hist {
					s = append(s, o.String())
				}
				return strings.Join(s, "; ")
			}
			for i, o := range hist {
				var mm string
				var skip bool
				if p := catch(func() { mm, skip = r.do(o) }); p != "" {
					res.Dead, res.Key, res.Outcome = true, "panic", o.Kind+":panic"
					res.Findings = []explore.Finding{{Sig: "C19:panic:" + o.Kind, Msg: fmt.Sprintf("%s panicked: %s\nhistory: %s", o, p, hs())}}
					return res
				}
				if skip {
					res.Dead, res.Key, res.Outcome = true, "skip", "not-applicable"
					return res
				}
				if i < len(hist)-1 {
					continue
				}
				res.Outcome = o.Kind
				if mm != "" {
					res.Findings = append(res.Findings, explore.Finding{Sig: "C19:result:" + o.Kind, Msg: mm + "\nhistory: " + hs()})
				}
			}
			if d := r.observe(); d != "" {
				k := "start"
				if len(hist) > 0 {
					k = hist[len(hist)-1].Kind
				}
				res.Findings = append(res.Findings, explore.Finding{Sig: "C19:mirror:" + k, Msg: d + "\nhistory: " + hs()})
			}
			res.Key = r.key()
			// Probe: histories are merged by the observable state (tree, open
			// file), which cannot see what the server remembers about a fid
			// (its path). On this instance, which is discarded anyway, the
			// live fid is therefore used once more for path-based requests.
			if len(res.Findings) == 0 && r.openPath != "" && len(hist) > 0 {
				for _, po := range []HOp{{Kind: "chmod", Path: r.openPath, Perm: 0640}, {Kind: "read", Off: 0, N: 5}, {Kind: "truncate", Path: r.openPath, Off: 1}} {
					if po.Kind == "truncate" && r.openMode&3 == p9p.OREAD {
						continue // (the open mode does not matter for wstat, but keep the probe within what the alphabet does)
					}
					var mm string
					var skip bool
					if p := catch(func() { mm, skip = r.do(po) }); p != "" {
						res.Findings = append(res.Findings, explore.Finding{Sig: "C19:panic:" + po.Kind, Msg: fmt.Sprintf("%s panicked: %s\nhistory: %s; (probe) %s", po, p, hs(), po)})
						break
					}
					if skip {
						continue
					}
					if mm != "" {
						res.Findings = append(res.Findings, explore.Finding{Sig: "C19:result:" + po.Kind, Msg: mm + "\nhistory: " + hs() + "; (probe) " + po.String()})
						break
					}
					if d := r.observe(); d != "" {
						res.Findings = append(res.Findings, explore.Finding{Sig: "C19:mirror:" + po.Kind, Msg: d + "\nhistory: " + hs() + "; (probe) " + po.String()})
						break
					}
				}
			}
			if len(res.Findings) > 0 {
				res.Dead = true
			}
			return res
		},
		MaxDepth: depth,
		Workers:  runtime.NumCPU(),
		Deadline: c.Deadline,
	})
	c.Count(st.Transitions, st.States, st.Transitions, st.Transitions)
	for k, v := range st.Outcomes {
		c.Outcome(k, v)
	}
	for _, h := range st.Samples {
		var hs []string
		for _, o := range h {
			hs = append(hs, o.String())
		}
		c.Sample(strings.Join(hs, "; "))
	}
	c.Set("bfs_depth_reached", st.Depth)
	c.Set("bfs_fixpoint", st.Fixpoint)
	c.Set("alphabet_size", len(ops))
	if !st.Complete {
		c.NotExhaustive("time budget")
	}
	for _, v := range st.Viol {
		var hs []string
		for _, o := range v.Hist {
			hs = append(hs, o.String())
		}
		c.Violation(v.Sig, v.Msg, map[string]any{"history": v.Hist, "history_text": hs})
	}
}
