package props

import (
	"context"
	"fmt"
	"os"
	"path/filepath"
	"runtime"
	"sort"
	"strings"
	"sync"
	"sync/atomic"
	"syscall"
	"time"

	p9p "github.com/frobnitzem/go-p9p"
	"github.com/frobnitzem/go-p9p/ufs"
	"github.com/frobnitzem/go-p9p/zzverif/core"
)

func init() { Registry["C15"] = c15 }

const c15Marker = "OUTSIDE-MARKER-7f3a"

var c15Hostile = []string{"..", ".", "", "a/b", "a\\b", "/etc/passwd", "../outside.txt", "../../..", "..a", "...", "x\x00y",
	strings.Repeat("L", 300), strings.Repeat("M", 5000), "sub", "f.txt", "new", "../export-evil", "export-evil", "/", "\\", "..\\outside.txt",
	// names that a host-level normalisation applied after validation (blank
	// stripping, dropping invalid UTF-8, case or width folding) would turn into ".."
	".. ", " ..", ".\xff.", "..\xff", "\uff0e\uff0e"}

// scratchBase is where temporary trees go: the check's scratch directory
// (removed by bin/vcheck), never /repo or /verif.
func scratchBase() string {
	if d := os.Getenv("VERIF_SCRATCHDIR"); d != "" {
		return d
	}
	return os.TempDir()
}

type c15Box struct {
	dir     string // D
	export  string
	outside map[string]string // path -> fingerprint of everything outside the export
	outIno  map[uint64]bool
	expIno  uint64
	empty   bool
	bumps   int
}

func fingerprint(path string) string {
	fi, err := os.Lstat(path)
	if err != nil {
		return "missing"
	}
	st := fi.Sys().(*syscall.Stat_t)
	s := fmt.Sprintf("%v|%o|%d|%d|%d", fi.Mode().Type(), fi.Mode().Perm(), st.Ino, fi.ModTime().UnixNano(), fi.Size())
	if fi.Mode().IsRegular() {
		b, _ := os.ReadFile(path)
		s += "|" + string(b)
	}
	if fi.IsDir() {
		ents, _ := os.ReadDir(path)
		var names []string
		for _, e := range ents {
			names = append(names, e.Name())
		}
		sort.Strings(names)
		s += "|" + strings.Join(names, ",")
	}
	return s
}

func newC15Box(id int, empty bool) (*c15Box, error) {
	d, err := os.MkdirTemp(scratchBase(), fmt.Sprintf("c15-%d-", id))
	if err != nil {
		return nil, err
	}
	b := &c15Box{dir: d, export: filepath.Join(d, "export"), empty: empty}
	must := func(err error) {
		if err != nil {
			panic(err)
		}
	}
	must(os.WriteFile(filepath.Join(d, "outside.txt"), []byte(c15Marker), 0644))
	must(os.MkdirAll(filepath.Join(d, "export-evil", "inner"), 0755))
	must(os.WriteFile(filepath.Join(d, "export-evil", "secret.txt"), []byte(c15Marker+"2"), 0644))
	b.fill()
	b.snapshot()
	return b, nil
}

// fill (re)creates the export's pristine content.
func (b *c15Box) fill() {
	os.RemoveAll(b.export)
	os.MkdirAll(b.export, 0755)
	if b.empty {
		return
	}
	os.WriteFile(filepath.Join(b.export, "f.txt"), []byte("inside-f"), 0644)
	os.MkdirAll(filepath.Join(b.export, "sub", "deep"), 0755)
	os.WriteFile(filepath.Join(b.export, "sub", "g.txt"), []byte("inside-g"), 0644)
	os.WriteFile(filepath.Join(b.export, "sub", "deep", "h.txt"), []byte("inside-h"), 0644)
}

func (b *c15Box) outsidePaths() []string {
	return []string{b.dir, filepath.Join(b.dir, "outside.txt"), filepath.Join(b.dir, "export-evil"),
		filepath.Join(b.dir, "export-evil", "inner"), filepath.Join(b.dir, "export-evil", "secret.txt")}
}

func (b *c15Box) snapshot() {
	b.outside = map[string]string{}
	b.outIno = map[uint64]bool{}
	for _, p := range b.outsidePaths() {
		b.outside[p] = fingerprint(p)
		if fi, err := os.Lstat(p); err == nil {
			b.outIno[fi.Sys().(*syscall.Stat_t).Ino] = true
		}
	}
	if fi, err := os.Lstat(b.export); err == nil {
		b.expIno = fi.Sys().(*syscall.Stat_t).Ino
	}
}

// insideHash is a cheap fingerprint of the export's content, to know when
// it has to be rebuilt.
func (b *c15Box) insideHash() string {
	var sb strings.Builder
	filepath.Walk(b.export, func(p string, fi os.FileInfo, err error) error {
		if err == nil {
			fmt.Fprintf(&sb, "%s:%v:%d;", p[len(b.export):], fi.Mode(), fi.Size())
		}
		return nil
	})
	return sb.String()
}

// check returns a description of any change outside the export.
func (b *c15Box) check() string {
	for _, p := range b.outsidePaths() {
		now := fingerprint(p)
		if p == b.dir {
			// the parent directory's mtime legitimately changes when the
			// export itself is touched; compare its listing and identity only
			a, c := strings.Split(now, "|"), strings.Split(b.outside[p], "|")
			if len(a) == 6 && len(c) == 6 && a[0] == c[0] && a[2] == c[2] && a[5] == c[5] {
				continue
			}
			return fmt.Sprintf("the directory containing the export changed: was %q now %q", b.outside[p], now)
		}
		if now != b.outside[p] {
			return fmt.Sprintf("%s (outside the export) changed: was %q now %q", p[len(b.dir):], clip(b.outside[p]), clip(now))
		}
	}
	fi, err := os.Lstat(b.export)
	if err != nil || !fi.IsDir() {
		return "the exported root directory no longer exists under its name"
	}
	if fi.Sys().(*syscall.Stat_t).Ino != b.expIno {
		return "the exported root directory was replaced (renamed away and re-created)"
	}
	return ""
}

func clip(s string) string {
	if len(s) > 120 {
		return s[:120] + "..."
	}
	return s
}

// UOp is one 9P request against the ufs session.
type UOp struct {
	Kind  string // walk create mkdir rename remove
	Fid   p9p.Fid
	Names []string
	Name  string
}

func (o UOp) String() string {
	q := func(s string) string {
		if len(s) > 40 {
			return fmt.Sprintf("%q...(%d)", s[:20], len(s))
		}
		return fmt.Sprintf("%q", s)
	}
	switch o.Kind {
	case "walk":
		var ns []string
		for _, n := range o.Names {
			ns = append(ns, q(n))
		}
		return fmt.Sprintf("walk(%d->9,[%s])", o.Fid, strings.Join(ns, " "))
	case "create", "mkdir", "rename":
		return fmt.Sprintf("%s(%d,%s)", o.Kind, o.Fid, q(o.Name))
	}
	return fmt.Sprintf("%s(%d)", o.Kind, o.Fid)
}

// c15Run executes a history on a fresh session over the box and judges it.
func c15Run(b *c15Box, hist []UOp) (sig, text string) {
	ctx := context.Background()
	sess := p9p.SFileSys(ufs.NewServer(ctx, b.export))
	desc := func() string {
		var s []string
		for _, o := range hist {
			s = append(s, o.String())
		}
		st := "populated export"
		if b.empty {
			st = "empty export"
		}
		return st + ": attach(0); walk(0->1,[sub]); walk(1->2,[deep]); " + strings.Join(s, "; ")
	}
	leak := func(what string, q p9p.Qid, data string) (string, string) {
		if b.outIno[q.Path] {
			return "outside-qid", fmt.Sprintf("%s returned the qid of a file outside the export (%s)", what, desc())
		}
		if strings.Contains(data, c15Marker) {
			return "outside-data", fmt.Sprintf("%s returned the content of a file outside the export (%s)", what, desc())
		}
		return "", ""
	}
	if _, err := sess.Attach(ctx, 0, p9p.NOFID, "u", ""); err != nil {
		return "harness", "attach failed: " + err.Error()
	}
	if !b.empty {
		sess.Walk(ctx, 0, 1, "sub")
		sess.Walk(ctx, 1, 2, "deep")
	}
	// The export is a live directory: other activity changes the root's
	// modification time after the fids were bound (whatever the server cached
	// about the root - a qid version, a stat - is stale from here on).
	bump := time.Now().Add(time.Duration(10+b.bumps) * time.Second)
	b.bumps++
	os.Chtimes(b.export, bump, bump)
	for _, o := range hist {
		var pan string
		switch o.Kind {
		case "walk":
			var qids []p9p.Qid
			pan = catch(func() { qids, _ = sess.Walk(ctx, o.Fid, 9, o.Names...) })
			for _, q := range qids {
				if s, t := leak(o.String(), q, ""); s != "" {
					return s, t
				}
			}
			if len(qids) == len(o.Names) {
				// probe the reached file, then free fid 9 for the next walk
				pan2 := catch(func() {
					if d, err := sess.Stat(ctx, 9); err == nil {
						if s, t := leak("stat after "+o.String(), d.Qid, d.Name); s != "" {
							sig, text = s, t
						}
					}
					if _, _, err := sess.Open(ctx, 9, p9p.OREAD); err == nil {
						buf := make([]byte, 256)
						n, _ := sess.Read(ctx, 9, buf, 0)
						if s, t := leak("read after "+o.String(), p9p.Qid{}, string(buf[:n])); s != "" {
							sig, text = s, t
						}
					}
					sess.Clunk(ctx, 9)
				})
				if pan2 != "" {
					pan = pan2
				}
				if sig != "" {
					return sig, text
				}
			}
		case "create", "mkdir":
			perm := uint32(0644)
			if o.Kind == "mkdir" {
				perm = p9p.DMDIR | 0755
			}
			pan = catch(func() {
				// create moves the fid: work on a clone so that the depth fids stay
				if _, err := sess.Walk(ctx, o.Fid, 8); err == nil {
					q, _, err := sess.Create(ctx, 8, o.Name, perm, p9p.ORDWR)
					if err == nil {
						if s, t := leak(o.String(), q, ""); s != "" {
							sig, text = s, t
						}
						sess.Write(ctx, 8, []byte("written-through-9p"), 0)
					}
					sess.Clunk(ctx, 8)
				}
			})
			if sig != "" {
				return sig, text
			}
		case "rename":
			pan = catch(func() { sess.WStat(ctx, o.Fid, p9p.Dir{Mode: ^uint32(0), Length: ^uint64(0), Name: o.Name}) })
		case "remove":
			pan = catch(func() { sess.Remove(ctx, o.Fid) })
		}
		if pan != "" {
			return "panic:" + o.Kind, fmt.Sprintf("%s panicked: %s (%s)", o, pan, desc())
		}
		if ch := b.check(); ch != "" {
			kind := "outside-modified"
			if strings.Contains(ch, "exported root") {
				kind = "root-gone"
			}
			return kind + ":" + o.Kind, fmt.Sprintf("%s (%s)", ch, desc())
		}
	}
	sess.Stop(nil)
	return "", ""
}

// c15Deep: rename / create / mkdir / walk targets that try to leave the
// export, spelled with either separator and mixed. level 2: everything;
// level 1: the slash spellings plus two backslash ones; level 0: three
// representatives (for the innermost position of three-request histories).
func c15Deep(level int) []string {
	deep := []string{"../../x", "../../../../../../tmp/x", "/abs", "sub/../../y", "../export-evil/inner/z",
		"/../planted", "/../outside.txt", "/../export-evil/secret.txt", "/sub/../../planted", "/./../planted", "/sub/deep/../../../export-evil/inner/p", "//../planted"}
	switch level {
	case 0:
		return []string{"../../x", "/../planted", "..\\planted"}
	case 1:
		return append(deep, "..\\planted", "sub\\..\\..\\planted")
	}
	for _, n := range append([]string{}, deep...) {
		deep = append(deep, strings.ReplaceAll(n, "/", "\\"), strings.Replace(n, "/", "\\", 1))
	}
	return append(deep, "..\\planted", "..\\..\\planted", "sub\\..\\..\\planted", "x\\..\\..\\..\\planted",
		".. /planted", ".. /.. /planted", ".. /.. /.. /planted", ".\xff./planted", ".\xff./.\xff./planted", ".\xff./.\xff./.\xff./planted", " ../ ../planted")
}

func c15Alphabet(fids []p9p.Fid, maxList int, names []string, deep []string) []UOp {
	var ops []UOp
	for _, f := range fids {
		var rec func(cur []string)
		rec = func(cur []string) {
			if len(cur) > 0 {
				ops = append(ops, UOp{Kind: "walk", Fid: f, Names: append([]string{}, cur...)})
			}
			if len(cur) == maxList {
				return
			}
			for _, n := range names {
				rec(append(cur, n))
			}
		}
		rec(nil)
		for _, n := range names {
			ops = append(ops, UOp{Kind: "create", Fid: f, Name: n}, UOp{Kind: "mkdir", Fid: f, Name: n}, UOp{Kind: "rename", Fid: f, Name: n})
		}
		for _, n := range deep {
			ops = append(ops, UOp{Kind: "rename", Fid: f, Name: n}, UOp{Kind: "create", Fid: f, Name: n}, UOp{Kind: "mkdir", Fid: f, Name: n}, UOp{Kind: "walk", Fid: f, Names: []string{n}})
		}
		ops = append(ops, UOp{Kind: "remove", Fid: f})
	}
	return ops
}

func c15(c *core.Ctx) {
	c.SetLevel("model_checking")
	c.Budget(100*time.Second, 12*time.Minute)
	c.SetRule("real ufs server behind SFileSys on a private temp tree D/{outside.txt, export-evil/, export/}; start states: populated export with fids at depth 0,1,2 and an EMPTY export; histories of 1..2 (quick) / 1..3 (thorough) requests: walk with every name list of length <= 3 (depth 1) / <= 2 / 1 (deeper) over the hostile alphabet (.., ., empty, a/b, a\\\\b, absolute, ../ chains in both separators, '..' with trailing/leading blanks, with invalid UTF-8 inside, in full-width dots, NUL, 300 and 5000 characters, ordinary), create / mkdir / rename-to every hostile name, remove; after every request: everything outside the export is unchanged (type, mode, inode, mtime, size, content, listing), the export root still exists with its inode, no qid of an outside file and no outside content was returned. outcome = first-request kind x verdict")
	c.Assume("runs as root on tmpfs: permission denials do not occur", "symbolic links inside the export are outside the guarantee and are not created")
	type job struct {
		empty bool
		hist  []UOp
	}
	var jobs []job
	small := []string{"..", "", "a/b", "../outside.txt", "sub", "new", "x\x00y", "/"}
	for _, empty := range []bool{false, true} {
		fids := []p9p.Fid{0, 1, 2}
		if empty {
			fids = []p9p.Fid{0}
		}
		first := c15Alphabet(fids, 3, c15Hostile, c15Deep(2))
		if c.Quick() {
			first = c15Alphabet(fids, 2, c15Hostile, c15Deep(2))
		}
		for _, o := range first {
			jobs = append(jobs, job{empty, []UOp{o}})
		}
		second := c15Alphabet(fids, 1, c15Hostile, c15Deep(2))
		tail := c15Alphabet(fids, 1, small, c15Deep(1))
		tail3 := c15Alphabet(fids, 1, small, c15Deep(0))
		for _, a := range second {
			for _, b := range tail {
				jobs = append(jobs, job{empty, []UOp{a, b}})
			}
		}
		if !c.Quick() {
			for _, a := range tail3 {
				for _, b := range tail3 {
					for _, d := range tail3 {
						jobs = append(jobs, job{empty, []UOp{a, b, d}})
					}
				}
			}
		}
	}
	var next atomic.Int64
	var mu sync.Mutex
	classes := map[string]int64{}
	var wg sync.WaitGroup
	var done atomic.Int64
	for w := 0; w < runtime.NumCPU(); w++ {
		wg.Add(1)
		go func(w int) {
			defer wg.Done()
			boxes := map[bool]*c15Box{}
			pristine := map[bool]string{}
			defer func() {
				for _, b := range boxes {
					os.RemoveAll(b.dir)
				}
			}()
			local := map[string]int64{}
			for {
				i := int(next.Add(1) - 1)
				if i >= len(jobs) || c.Expired() {
					break
				}
				j := jobs[i]
				b := boxes[j.empty]
				if b == nil {
					var err error
					b, err = newC15Box(w*2+map[bool]int{false: 0, true: 1}[j.empty], j.empty)
					if err != nil {
						c.EngineError("cannot create sandbox: %v", err)
						return
					}
					boxes[j.empty] = b
					pristine[j.empty] = b.insideHash()
				}
				sig, text := c15Run(b, j.hist)
				done.Add(1)
				cls := j.hist[0].Kind + "/ok"
				if sig != "" {
					cls = j.hist[0].Kind + "/VIOLATION"
					var hs []string
					for _, o := range j.hist {
						hs = append(hs, o.String())
					}
					c.Violation("C15:"+sig, text, map[string]any{"empty_export": j.empty, "history": hs})
					// the sandbox may be damaged: rebuild it completely
					os.RemoveAll(b.dir)
					delete(boxes, j.empty)
					local[cls]++
					continue
				}
				if h := b.insideHash(); h != pristine[j.empty] {
					cls = j.hist[0].Kind + "/changed-inside"
					b.fill()
					b.snapshot()
				}
				local[cls]++
			}
			mu.Lock()
			for k, v := range local {
				classes[k] += v
			}
			mu.Unlock()
		}(w)
	}
	wg.Wait()
	n := done.Load()
	if int(n) < len(jobs) {
		c.NotExhaustive(fmt.Sprintf("time budget: %d of %d histories", n, len(jobs)))
	}
	c.Count(n, int64(len(classes)), n, n)
	for k, v := range classes {
		c.Outcome(k, v)
	}
	c.Sample("populated export: attach(0); walk(0->1,[sub]); walk(1->2,[deep]); rename(2,\"../../x\"); walk(0->9,[\"x\"])")
	c.Sample("empty export: attach(0); remove(0)")
	c.Set("histories", len(jobs))
}
