package props

import (
	"context"
	"encoding/binary"
	"fmt"
	"sort"
	"strings"
	"time"

	p9p "github.com/frobnitzem/go-p9p"
	"github.com/frobnitzem/go-p9p/zzverif/core"
	"github.com/frobnitzem/go-p9p/zzverif/explore"
	"github.com/frobnitzem/go-p9p/zzverif/refcodec"
	"github.com/frobnitzem/go-p9p/zzverif/vconn"
	"github.com/frobnitzem/go-p9p/zzverif/vsched"
)

func init() {
	Registry["C10"] = c10
	ScenarioFns["C10"] = func() []*explore.Scenario { return nil }
}

func c10Values() []uint32 {
	set := map[uint32]bool{}
	for v := uint32(0); v <= 30; v++ {
		set[v] = true
	}
	for k := 5; k <= 31; k++ {
		set[1<<k] = true
		set[1<<k-1] = true
		set[1<<k+1] = true
	}
	for _, v := range []uint32{65535, 65536, 65537, 100, 255, 1000, 8192, 0xFFFFFFFF, 0xFFFFFFFE} {
		set[v] = true
	}
	var out []uint32
	for v := range set {
		out = append(out, v)
	}
	sort.Slice(out, func(i, j int) bool { return out[i] < out[j] })
	return out
}

// sizedHandler answers Tread with as many bytes as asked, Tstat with a
// large Dir, Twrite with its length.
type sizedHandler struct {
	calls int
	stops int
	got   []p9p.Message
}

func (h *sizedHandler) Handle(ctx context.Context, m p9p.Message) (p9p.Message, error) {
	h.calls++
	h.got = append(h.got, m)
	switch v := m.(type) {
	case p9p.MessageTread:
		n := v.Count
		if n > 1<<20 {
			n = 1 << 20
		}
		if v.Fid == 77 {
			// a handler that answers with more than it was asked for: the
			// reply cannot fit in msize, whatever the server does with it
			n += 64
		}
		return p9p.MessageRread{Data: pat(int(n))}, nil
	case p9p.MessageTstat:
		return p9p.MessageRstat{Stat: p9p.Dir{Name: strings.Repeat("N", 300), UID: "u"}}, nil
	case p9p.MessageTwrite:
		return p9p.MessageRwrite{Count: uint32(len(v.Data))}, nil
	case p9p.MessageTclunk:
		return p9p.MessageRclunk{}, nil
	}
	return nil, fmt.Errorf("unexpected %T", m)
}
func (h *sizedHandler) Stop(err error) error { h.stops++; return err }

type c10Srv struct {
	first     p9p.Message
	firstTag  p9p.Tag
	h         *sizedHandler
	served    bool
	serveErr  error
	rversion  *p9p.MessageRversion
	frames    [][]byte // every frame the server sent after the handshake
	note      []string
	exactOK   bool
	exactSent bool
	agreed    int
	done      bool
}

// c10ServerCase: a scripted client opens with `first`, then (if a version
// was agreed) probes the limits.
func c10ServerCase(first p9p.Message, tag p9p.Tag) *explore.Scenario {
	return &explore.Scenario{
		Name:     fmt.Sprintf("server/%s", Brief(first)),
		MaxSteps: 100000,
		Body: func() any {
			st := &c10Srv{first: first, firstTag: tag, h: &sizedHandler{}}
			cli, srv := vconn.Pipe(false)
			cli.Name, srv.Name = "cli", "srv"
			vsched.Go("serve", func() {
				st.serveErr = p9p.ServeConn(context.Background(), srv, st.h)
				st.served = true
			})
			vsched.Go("client", func() {
				defer func() { st.done = true }()
				cli.Write(refcodec.EncodeFrame(tag, first))
				f, err := cli.ReadFrameOr(func() bool { return st.served })
				if err != nil || f == nil {
					cli.Close()
					return
				}
				fc, _, derr := refcodec.Decode(f[4:])
				if derr != nil {
					st.note = append(st.note, "undecodable first reply")
					cli.Close()
					return
				}
				rv, ok := fc.Message.(p9p.MessageRversion)
				if !ok {
					st.note = append(st.note, "first reply is "+Brief(fc))
					cli.Close()
					return
				}
				st.rversion = &rv
				tv, _ := first.(p9p.MessageTversion)
				agreed := int(tv.MSize)
				if int(rv.MSize) < agreed {
					agreed = int(rv.MSize)
				}
				st.agreed = agreed
				recv := func() bool {
					f, err := cli.ReadFrameOr(func() bool { return st.served })
					if err != nil || f == nil {
						return false
					}
					st.frames = append(st.frames, f)
					return true
				}
				// a frame of exactly the agreed size must be accepted
				if agreed >= 24 && agreed <= 1<<20 {
					st.exactSent = true
					cli.Write(refcodec.EncodeFrame(1, p9p.MessageTwrite{Fid: 1, Offset: 2, Data: pat(agreed - 23)}))
					if recv() {
						if last, _, e := refcodec.Decode(st.frames[len(st.frames)-1][4:]); e == nil {
							if rw, ok := last.Message.(p9p.MessageRwrite); ok && int(rw.Count) == agreed-23 {
								st.exactOK = true
							}
						}
					}
				}
				// requests whose largest reply would exceed the agreed size
				cli.Write(refcodec.EncodeFrame(2, p9p.MessageTread{Fid: 1, Offset: 0, Count: 200000}))
				recv()
				cli.Write(refcodec.EncodeFrame(3, p9p.MessageTread{Fid: 1, Offset: 0, Count: 0xFFFFFFFF}))
				recv()
				cli.Write(refcodec.EncodeFrame(4, p9p.MessageTstat{Fid: 1}))
				recv()
				cli.Write(refcodec.EncodeFrame(5, p9p.MessageTclunk{Fid: 1}))
				recv()
				// last: a read whose handler over-answers (the server may give
				// up the connection, it must not emit an over-long frame)
				cli.Write(refcodec.EncodeFrame(6, p9p.MessageTread{Fid: 77, Offset: 0, Count: 0xFFFFFFFF}))
				recv()
				cli.Close()
			})
			return st
		},
		Check: func(state any, e *vsched.Exec) (string, []explore.Finding) {
			st := state.(*c10Srv)
			var fs []explore.Finding
			bad := func(sig, format string, a ...any) {
				fs = append(fs, explore.Finding{Sig: "C10:server:" + sig, Msg: fmt.Sprintf(format, a...) + fmt.Sprintf(" [first message %s]", Brief(st.first))})
			}
			if len(e.Panics) > 0 {
				bad("panic", "%s", panicList(e))
			}
			if !st.done || !st.served {
				bad("stuck", "client done=%v serve returned=%v; blocked: %s", st.done, st.served, blockedList(e))
				return "stuck", fs
			}
			tv, isVersion := st.first.(p9p.MessageTversion)
			rversionSize := 4 + 1 + 2 + 4 + 2 + 6
			mustRefuse := !isVersion || int(tv.MSize) < rversionSize
			if mustRefuse {
				if st.rversion != nil {
					bad("not-refused", "a session was established (Rversion msize %d)", st.rversion.MSize)
				}
				if st.serveErr == nil {
					bad("refusal-without-error", "ServeConn returned nil")
				}
				if st.h.calls != 0 {
					bad("dispatched-before-version", "the handler was invoked %d times", st.h.calls)
				}
				return "refused", fs
			}
			if st.rversion == nil {
				if len(st.note) > 0 {
					bad("no-rversion", "%v", st.note)
				} else {
					bad("no-rversion", "a version request with msize %d was not answered", tv.MSize)
				}
				return "no-rversion", fs
			}
			if st.rversion.MSize > tv.MSize || st.rversion.MSize > p9p.DefaultMSize {
				bad("rversion-too-large", "client proposed %d, server answered %d (its own maximum is %d)", tv.MSize, st.rversion.MSize, p9p.DefaultMSize)
			}
			for _, f := range st.frames {
				if len(f) > st.agreed {
					fc, _, _ := refcodec.Decode(f[4:])
					bad("frame-exceeds-agreed", "after agreeing on msize %d the server sent a frame of %d bytes (%T)", st.agreed, len(f), msgOf(fc))
				}
			}
			if st.exactSent && !st.exactOK {
				bad("exact-size-rejected", "a Twrite frame of exactly the agreed msize %d was not accepted", st.agreed)
			}
			return fmt.Sprintf("agreed=%d replies=%d exact=%v", st.agreed, len(st.frames), st.exactOK), fs
		},
	}
}

func msgOf(fc *p9p.Fcall) any {
	if fc == nil {
		return nil
	}
	return fc.Message
}

type c10Cli struct {
	answer   p9p.Message
	sessErr  error
	msize    int
	version  string
	sent     [][]byte // frames the client sent after the handshake
	done     bool
	results  []string
	exactGot int
	agreed   int
	proposed uint32
}

// c10ClientCase: a real CSession against a scripted server that answers the
// Tversion with `answer`, then serves reads and writes at the limits.
func c10ClientCase(answer p9p.Message) *explore.Scenario { return c10ClientCaseP(answer, 0) }

// c10ClientCaseP: the client proposes msize `proposal` (hook VerifCSession);
// 0: the library's own CSession with its fixed proposal.
func c10ClientCaseP(answer p9p.Message, proposal int) *explore.Scenario {
	return &explore.Scenario{
		Name:     fmt.Sprintf("client/p%d/%s", proposal, Brief(answer)),
		MaxSteps: 100000,
		Body: func() any {
			st := &c10Cli{answer: answer}
			cli, srv := vconn.Pipe(false)
			cli.Name, srv.Name = "cli", "srv"
			clientDone := false
			vsched.Go("server", func() {
				f, err := srv.ReadFrame()
				if err != nil {
					return
				}
				if fc, _, e := refcodec.Decode(f[4:]); e == nil {
					if tv, ok := fc.Message.(p9p.MessageTversion); ok {
						st.proposed = tv.MSize
					}
				}
				srv.Write(refcodec.EncodeFrame(p9p.NOTAG, answer))
				agreed := int(st.proposed)
				if rv, ok := answer.(p9p.MessageRversion); ok && int(rv.MSize) < agreed {
					agreed = int(rv.MSize)
				}
				st.agreed = agreed
				for {
					f, err := srv.ReadFrameOr(func() bool { return clientDone })
					if err != nil || f == nil {
						break
					}
					st.sent = append(st.sent, f)
					fc, _, e := refcodec.Decode(f[4:])
					if e != nil {
						continue
					}
					switch m := fc.Message.(type) {
					case p9p.MessageTread:
						// answer with a frame of exactly the agreed size when possible
						n := agreed - 11
						if n < 0 {
							n = 0
						}
						if int(m.Count) < n {
							n = int(m.Count)
						}
						srv.Write(refcodec.EncodeFrame(fc.Tag, p9p.MessageRread{Data: pat(n)}))
					case p9p.MessageTwrite:
						srv.Write(refcodec.EncodeFrame(fc.Tag, p9p.MessageRwrite{Count: uint32(len(m.Data))}))
					default:
						srv.Write(refcodec.EncodeFrame(fc.Tag, p9p.MessageRerror{Ename: "no"}))
					}
				}
				srv.Close()
			})
			vsched.Go("client", func() {
				defer func() { st.done = true; clientDone = true; vsched.Yield("client.end", srv.ReadObj()) }()
				ctx := context.Background()
				var c p9p.Session
				var err error
				if proposal == 0 {
					c, err = p9p.CSession(ctx, cli)
				} else {
					c, err = p9p.VerifCSession(ctx, cli, proposal)
				}
				st.sessErr = err
				if err != nil {
					return
				}
				st.msize, st.version = c.Version()
				m := st.msize
				if m < 0 || m > 1<<20 {
					m = 1 << 20
				}
				buf := make([]byte, 2*m+50)
				n, err := c.Read(ctx, 1, buf, 0)
				st.results = append(st.results, fmt.Sprintf("read:%d,%v", n, err != nil))
				st.exactGot = n
				n, err = c.Write(ctx, 1, pat(2*m+50), 0)
				st.results = append(st.results, fmt.Sprintf("write:%d,%v", n, err != nil))
				n, err = c.Read(ctx, 1, make([]byte, 5), 0)
				st.results = append(st.results, fmt.Sprintf("read5:%d,%v", n, err != nil))
			})
			return st
		},
		Check: func(state any, e *vsched.Exec) (string, []explore.Finding) {
			st := state.(*c10Cli)
			var fs []explore.Finding
			bad := func(sig, format string, a ...any) {
				fs = append(fs, explore.Finding{Sig: "C10:client:" + sig, Msg: fmt.Sprintf(format, a...) + fmt.Sprintf(" [server answered %s to a proposal of %d]", Brief(st.answer), st.proposed)})
			}
			if len(e.Panics) > 0 {
				bad("panic", "%s", panicList(e))
			}
			if !st.done {
				bad("stuck", "client did not finish; blocked: %s", blockedList(e))
				return "stuck", fs
			}
			rv, isR := st.answer.(p9p.MessageRversion)
			if st.sessErr != nil {
				// refusing a session is always within the statement
				return "session-refused", fs
			}
			if !isR {
				bad("accepted-non-version", "CSession succeeded although the reply to Tversion was not an Rversion")
				return "bad", fs
			}
			if proposal != 0 && st.proposed != uint32(proposal) {
				bad("proposal-not-sent", "the client was to propose %d but its Tversion carries %d", proposal, st.proposed)
			}
			if uint32(st.msize) > st.proposed {
				bad("adopted-more-than-proposed", "client proposed %d but reports msize %d", st.proposed, st.msize)
			}
			if uint32(st.msize) > rv.MSize {
				bad("adopted-more-than-answered", "server answered %d but the client reports msize %d", rv.MSize, st.msize)
			}
			for _, f := range st.sent {
				if len(f) > st.agreed {
					bad("frame-exceeds-agreed", "after agreeing on msize %d the client sent a frame of %d bytes (type %d)", st.agreed, len(f), f[4])
				}
			}
			if st.agreed >= 24 && st.agreed <= 1<<20 {
				if st.exactGot != st.agreed-11 {
					bad("exact-size-rejected", "an Rread frame of exactly the agreed msize %d: the caller got %d bytes instead of %d", st.agreed, st.exactGot, st.agreed-11)
				}
			}
			_ = binary.LittleEndian
			return fmt.Sprintf("msize=%d %s", st.msize, strings.Join(st.results, " ")), fs
		},
	}
}

func c10(c *core.Ctx) {
	c.Budget(100*time.Second, 10*time.Minute)
	vals := c10Values()
	c.SetRule(fmt.Sprintf("server side: a scripted client opens a real ServeConn with Tversion(msize p, version v) for p in %d boundary-dense values (0..30, 2^k, 2^k+-1, 65535..65537, 2^31+-1, 2^32-1) x 5 version strings, or with each of the other message kinds; then sends a Twrite frame of exactly the agreed size, Treads of 200000 and 2^32-1 bytes, a Tstat whose reply is large, a Tclunk, and a Tread whose handler returns 64 bytes more than it was asked for. client side: a real CSession against a scripted server answering Rversion(msize a) for the same values x version strings, or a non-version reply, and the same client with proposals {24,100,65537} (quick) / {19,23,24,25,100,8192,65535,65537,2^20} (thorough) through the VerifCSession hook against every answer; then Read and Write of 2*msize+50 bytes with the server answering with frames of exactly the agreed size. thorough adds every msize 0..4200 and 65000..66100 on both sides. One execution (default schedule) per case under the controlled scheduler. Oracle: Rversion.msize <= min(p, 65536); client msize <= min(proposal, a); no later frame in either direction exceeds the agreed size; a frame of exactly that size is accepted; non-version first message or p < 19 refused with an error and nothing dispatched", len(vals)))
	c.Assume("the protocol exchange is sequential, so one schedule per case suffices; interleavings of the serve loop are C06's business")
	versions := []string{"9P2000", "9P2000.u", "", "unknown", strings.Repeat("V", 300)}
	var scs []*explore.Scenario
	for _, p := range vals {
		for vi, v := range versions {
			_ = vi
			scs = append(scs, c10ServerCase(p9p.MessageTversion{MSize: p, Version: v}, p9p.NOTAG))
			scs = append(scs, c10ClientCase(p9p.MessageRversion{MSize: p, Version: v}))
		}
	}
	seeds, _ := c04Seeds()
	for _, s := range seeds {
		fc, _, err := refcodec.Decode(s)
		if err != nil {
			continue
		}
		if _, ok := fc.Message.(p9p.MessageTversion); !ok {
			scs = append(scs, c10ServerCase(fc.Message, 1))
		}
		if _, ok := fc.Message.(p9p.MessageRversion); !ok {
			scs = append(scs, c10ClientCase(fc.Message))
		}
	}
	scs = append(scs, c10ServerCase(p9p.MessageTversion{MSize: 8192, Version: "9P2000"}, 5)) // tagged version request
	if !c.Quick() {
		// dense windows: every msize 0..4200 and 65000..66100
		have := map[uint32]bool{}
		for _, v := range vals {
			have[v] = true
		}
		for v := uint32(0); v <= 66100; v++ {
			if v == 4201 {
				v = 65000
			}
			if !have[v] {
				scs = append(scs, c10ServerCase(p9p.MessageTversion{MSize: v, Version: "9P2000"}, p9p.NOTAG), c10ClientCase(p9p.MessageRversion{MSize: v, Version: "9P2000"}))
			}
		}
	}
	// client proposals other than the library's default, against every answer
	props := []int{19, 23, 24, 25, 100, 8192, 65535, 65537, 1 << 20}
	if c.Quick() {
		props = []int{24, 100, 65537}
	}
	for _, pr := range props {
		for _, a := range vals {
			scs = append(scs, c10ClientCaseP(p9p.MessageRversion{MSize: a, Version: "9P2000"}, pr))
		}
		scs = append(scs, c10ClientCaseP(p9p.MessageRversion{MSize: uint32(pr), Version: "unknown"}, pr), c10ClientCaseP(p9p.MessageRerror{Ename: "no"}, pr))
	}
	classes := map[string]int64{}
	for i, sc := range scs {
		if c.Expired() {
			c.NotExhaustive("time budget")
			break
		}
		e, outcome, findings := explore.RunDefault(sc)
		c.Count(1, 1, int64(e.Steps), 1)
		side := sc.Name[:6]
		key := side + " " + outcome
		if strings.HasPrefix(outcome, "agreed=") || strings.HasPrefix(outcome, "msize=") {
			key = side + " established"
		}
		classes[key]++
		for _, f := range findings {
			c.Violation(f.Sig, f.Msg, map[string]any{"scenario": sc.Name})
		}
		if i%97 == 0 {
			c.Sample(map[string]any{"case": sc.Name, "outcome": outcome})
		}
	}
	for k, v := range classes {
		c.Outcome(k, v)
	}
	c.Set("cases", len(scs))
}
