package props

import (
	"context"
	"fmt"
	"runtime"
	"strings"
	"time"

	p9p "github.com/frobnitzem/go-p9p"
	"github.com/frobnitzem/go-p9p/zzverif/core"
	"github.com/frobnitzem/go-p9p/zzverif/explore"
	"github.com/frobnitzem/go-p9p/zzverif/mockfs"
	"github.com/frobnitzem/go-p9p/zzverif/vsync"
)

func init() { Registry["C08"] = c08 }

// sessRun replays a history of session operations on a fresh SFileSys over
// a fresh mockfs and compares every step with the reference fid table.
type sessRun struct {
	fs        *mockfs.FS
	sess      p9p.Session
	model     *fidModel
	devUsed   int
	lastN     int      // fs calls made by the last operation
	lastOps   []string // their names
	poison    bool
	everBound map[*mockfs.Ent]bool
}

type stepReport struct {
	Findings []explore.Finding
	Outcome  string
	Skip     bool
}

func newSessRun() *sessRun {
	fs := mockfs.New()
	return &sessRun{fs: fs, sess: p9p.SFileSys(fs), model: newFidModel(), everBound: map[*mockfs.Ent]bool{}}
}

// doOp executes one operation (with its injected failure, if any), checks it
// against the model and reports.
func (r *sessRun) doOp(prop string, o SOp, hist []SOp) stepReport {
	var rep stepReport
	bad := func(sig, format string, a ...any) {
		rep.Findings = append(rep.Findings, explore.Finding{Sig: prop + ":" + sig, Msg: fmt.Sprintf(format, a...) + "\nhistory: " + histString(hist)})
	}
	start := r.fs.NCalls()
	failedCall := ""
	r.fs.Decide = func(n int, call string, h *mockfs.Ent) int {
		if o.Fail >= 0 && n == start+o.Fail {
			failedCall = call
			if o.Part {
				return mockfs.Partial
			}
			return mockfs.Fail
		}
		return mockfs.OK
	}
	var res SResult
	opctx := context.Background()
	if o.Dead {
		c, cancel := context.WithCancel(opctx)
		cancel()
		opctx = c
	}
	p := catch(func() { res = applyOp(opctx, r.sess, o) })
	r.fs.Decide = nil
	r.lastN = r.fs.NCalls() - start
	r.lastOps = nil
	for _, c := range r.fs.Calls[len(r.fs.Calls)-r.lastN:] {
		r.lastOps = append(r.lastOps, c[:strings.IndexAny(c, "#")])
	}
	if o.Fail >= 0 {
		r.devUsed++
	}
	if p != "" {
		r.poison = true
		if strings.Contains(p, "already held") {
			bad("never-returns:"+o.Kind, "%s never returns: it locks a fid that is still locked (self-deadlock)", o)
		} else {
			bad("panic:"+o.Kind, "%s panicked: %s", o, p)
		}
		rep.Outcome = o.Kind + ":deadlock-or-panic"
		return rep
	}
	if o.Dead && !res.OK() {
		// refused because its context was already cancelled: allowed when
		// it had no effect at all (same table, nothing locked, no file-system misuse)
		if got, probs := dumpImpl(r.sess); got == r.model.key() && len(probs) == 0 && len(r.fs.Problems) == 0 {
			rep.Outcome = o.Kind + ":refused-cancelled-ctx"
			return rep
		}
	}
	before := newFidModelFrom(r.model)
	exp := r.model.step(o, failedCall)
	if exp.Skip && !res.OK() {
		// The statement leaves open what a walk or create from an opened fid
		// does - but an operation that FAILS must leave the table as it was,
		// here as everywhere else.
		r.model = before
		got, probs := dumpImpl(r.sess)
		r.noteBound()
		for _, pr := range probs {
			bad("table:"+firstWords(pr), "after %s: %s", o, pr)
		}
		if want := r.model.key(); got != want && len(probs) == 0 {
			// a create whose file-system Create had already consumed the
			// parent entry may leave the fid unbound instead (as for closed fids)
			alt := newFidModelFrom(r.model)
			delete(alt.Fids, o.Fid)
			if o.Kind == "create" && o.Fail >= 1 && got == alt.key() {
				r.model = alt
			} else {
				bad("failed-op-changed-table:"+o.Kind, "%s failed with %q, yet the fid table changed from {%s} to {%s}", o, res.Err, want, got)
			}
		}
		for _, pr := range r.fs.Problems {
			bad("fs:"+firstWords(pr), "after %s the file system observed: %s", o, pr)
		}
		if len(rep.Findings) > 0 {
			r.poison = true
		}
		rep.Outcome = o.Kind + ":err(from an opened fid)"
		return rep
	}
	if exp.Skip {
		rep.Skip = true
		return rep
	}
	cls := "err"
	if res.OK() {
		cls = "ok"
	}
	rep.Outcome = fmt.Sprintf("%s:%s", o.Kind, cls)
	if o.Fail >= 0 {
		rep.Outcome += ":fsfail"
	}
	switch {
	case exp.OK && !res.OK():
		bad("unexpected-error:"+o.Kind, "%s failed with %q; the fid state machine says it succeeds (model state before: %s)", o, res.Err, r.modelBefore(o))
	case !exp.OK && res.OK():
		bad("unexpected-success:"+o.Kind, "%s succeeded; the fid state machine says it fails", o)
	case !exp.OK && exp.ErrHas != "" && !strings.Contains(res.Err, exp.ErrHas):
		bad("wrong-error:"+o.Kind, "%s failed with %q, expected an error mentioning %q", o, res.Err, exp.ErrHas)
	case exp.OK && o.Kind == "walk" && res.NQids != exp.NQids:
		bad("walk-qids", "%s returned %d qids, expected %d", o, res.NQids, exp.NQids)
	}
	got, probs := dumpImpl(r.sess)
	r.noteBound()
	for _, pr := range probs {
		bad("table:"+firstWords(pr), "after %s: %s", o, pr)
	}
	want := r.model.key()
	if got != want && len(probs) == 0 {
		if exp.AltUnbind {
			// the statement allows the fid to stay on the parent or to be unbound
			alt := newFidModelFrom(r.model)
			delete(alt.Fids, o.Fid)
			if got == alt.key() {
				r.model = alt
				want = got
			}
		}
		if got != want {
			bad("table-differs:"+o.Kind, "after %s the fid table is {%s}, the reference fid table is {%s}", o, got, want)
		}
	}
	for _, pr := range r.fs.Problems {
		bad("fs:"+firstWords(pr), "after %s the file system observed: %s", o, pr)
	}
	if len(rep.Findings) > 0 {
		r.poison = true
	}
	return rep
}

func (r *sessRun) modelBefore(o SOp) string { return "n/a" }

// noteBound records which entry handles are bound to a fid right now.
func (r *sessRun) noteBound() map[*mockfs.Ent]bool {
	now := map[*mockfs.Ent]bool{}
	fids, _ := p9p.VerifFids(r.sess)
	for _, f := range fids {
		if e, ok := f.Ent.(*mockfs.Ent); ok && e != nil && f.Bound {
			now[e] = true
			r.everBound[e] = true
		}
	}
	return now
}

func newFidModelFrom(m *fidModel) *fidModel {
	n := newFidModel()
	for k, v := range m.Fids {
		c := *v
		n.Fids[k] = &c
	}
	return n
}

func firstWords(s string) string {
	w := strings.Fields(s)
	var out []string
	for _, x := range w {
		if strings.ContainsAny(x, "0123456789#(") {
			continue
		}
		out = append(out, x)
		if len(out) == 4 {
			break
		}
	}
	return strings.Join(out, "-")
}

func histString(h []SOp) string {
	var s []string
	for _, o := range h {
		s = append(s, o.String())
	}
	return strings.Join(s, "; ")
}

// variants lists the fault variants of the last operation: each of its
// file-system calls failing, and each Walk call stopping early.
func (r *sessRun) variants(o SOp, maxDev int) []SOp {
	if o.Fail >= 0 || r.devUsed >= maxDev {
		return nil
	}
	var out []SOp
	for i, name := range r.lastOps {
		v := o
		v.Fail = i
		out = append(out, v)
		if name == "Walk" && len(o.Names) >= 2 {
			p := v
			p.Part = true
			out = append(out, p)
		}
	}
	return out
}

func c08Alphabet(fids []p9p.Fid, rich bool) []SOp {
	var ops []SOp
	add := func(o SOp) { o.Fail = -1; ops = append(ops, o) }
	targets := []p9p.Fid{p9p.NOFID}
	for _, f := range fids {
		if f != 7 {
			targets = append(targets, f)
		}
	}
	for _, f := range targets {
		add(SOp{Kind: "attach", Fid: f, Fid2: p9p.NOFID})
	}
	add(SOp{Kind: "attach", Fid: 1, Fid2: 0})
	add(SOp{Kind: "attach", Fid: 1, Fid2: 7})
	add(SOp{Kind: "attach", Fid: 0, Fid2: 0})
	nameLists := [][]string{{}, {"a"}, {"a", "b"}, {"x"}, {"a", "x"}, {".."}}
	if rich {
		nameLists = append(nameLists, []string{"c"}, []string{"."}, []string{"a", ".."}, []string{"a/b"}, []string{"..", "a"})
	}
	for _, f := range fids {
		for _, nf := range targets {
			for _, nl := range nameLists {
				add(SOp{Kind: "walk", Fid: f, Fid2: nf, Names: nl})
			}
		}
	}
	// the access part of a mode is its low two bits: OTRUNC / ORCLOSE ride on top
	modes := []p9p.Flag{p9p.OREAD, p9p.OWRITE, p9p.ORDWR, p9p.OWRITE | p9p.OTRUNC}
	if rich {
		modes = append(modes, p9p.OEXEC, p9p.OWRITE|p9p.ORCLOSE)
	}
	for _, f := range fids {
		for _, m := range modes {
			add(SOp{Kind: "open", Fid: f, Mode: m})
		}
		add(SOp{Kind: "create", Fid: f, Name: "n", Perm: 0644, Mode: p9p.ORDWR})
		add(SOp{Kind: "create", Fid: f, Name: "n", Perm: p9p.DMDIR | 0755, Mode: p9p.OREAD})
		if rich {
			add(SOp{Kind: "create", Fid: f, Name: ".", Perm: 0644, Mode: p9p.ORDWR})
			add(SOp{Kind: "create", Fid: f, Name: "..", Perm: 0644, Mode: p9p.OWRITE})
			add(SOp{Kind: "create", Fid: f, Name: "w", Perm: 0600, Mode: p9p.OWRITE})
		}
		for _, k := range []string{"read", "write", "stat", "wstat", "clunk", "remove"} {
			add(SOp{Kind: k, Fid: f})
		}
		// the same operations issued with an already cancelled context
		if f == 0 || f == 1 {
			for _, k := range []string{"read", "write", "stat", "clunk"} {
				add(SOp{Kind: k, Fid: f, Dead: true})
			}
			add(SOp{Kind: "open", Fid: f, Mode: p9p.OREAD, Dead: true})
			add(SOp{Kind: "walk", Fid: f, Fid2: 1, Names: []string{"a"}, Dead: true})
			add(SOp{Kind: "create", Fid: f, Name: "n", Perm: 0644, Mode: p9p.ORDWR, Dead: true})
		}
	}
	return ops
}

// sessExec is the Exec function of the explicit-state search for a property
// whose oracle is doOp (+ extra, evaluated after the last step).
func sessExec(prop string, maxDev int, extra func(r *sessRun, hist []SOp) []explore.Finding) func(hist []SOp) explore.SeqResult[SOp] {
	return func(hist []SOp) explore.SeqResult[SOp] {
		r := newSessRun()
		var res explore.SeqResult[SOp]
		for i, o := range hist {
			rep := r.doOp(prop, o, hist[:i+1])
			if rep.Skip {
				res.Dead = true
				res.Key = "skip"
				res.Outcome = "not-in-alphabet"
				if i == len(hist)-1 {
					// the operation itself is outside the statement, its
					// failing variants are not (a failed operation changes nothing)
					res.Variants = r.variants(o, maxDev)
				}
				return res
			}
			if i == len(hist)-1 {
				res.Findings = rep.Findings
				res.Outcome = rep.Outcome
			} else if len(rep.Findings) > 0 {
				// a prefix already violates: reported when it was the last step
				res.Dead = true
				res.Key = "dead"
				return res
			}
			if r.poison {
				res.Dead = true
				break
			}
		}
		if extra != nil && !r.poison {
			res.Findings = append(res.Findings, extra(r, hist)...)
		}
		res.Key = fmt.Sprintf("dev%d|%s", r.devUsed, r.model.key())
		if len(hist) > 0 && !res.Dead {
			res.Variants = r.variants(hist[len(hist)-1], maxDev)
		}
		if len(res.Findings) > 0 {
			res.Dead = true
		}
		return res
	}
}

func reportSeq(c *core.Ctx, st *explore.SeqStats[SOp], what string) {
	c.Count(st.Transitions, st.States, st.Transitions, st.Transitions)
	for k, v := range st.Outcomes {
		c.Outcome(k, v)
	}
	for _, h := range st.Samples {
		c.Sample(histString(h))
	}
	c.Set(what+"_depth_reached", st.Depth)
	c.Set(what+"_fixpoint", st.Fixpoint)
	if !st.Complete {
		c.NotExhaustive(what + ": time budget")
	} else if !st.Fixpoint {
		c.Set(what+"_note", fmt.Sprintf("depth bound %d reached before the fixpoint of model states", st.Depth))
	}
	for _, v := range st.Viol {
		var hs []string
		for _, o := range v.Hist {
			hs = append(hs, o.String())
		}
		c.Violation(v.Sig, v.Msg, map[string]any{"history": v.Hist, "history_text": hs})
	}
}

func c08(c *core.Ctx) {
	vsync.SeqMode = true
	c.Budget(70*time.Second, 13*time.Minute)
	c.SetRule("breadth-first search over histories of session operations (attach/walk/open/create/read/write/stat/wstat/clunk/remove over fids {0,1,7,NOFID}, name lists giving clone/complete/not-found/partial walks, 3-5 open modes) with at most one injected file-system failure or early-stopping walk per history; each history runs on a fresh SFileSys over an instrumented mock file system; after every step the result class and the dumped fid table (hook) are compared with the reference fid table; states with equal reference state are merged; outcome = operation kind x result class")
	c.Assume("reference fid table written from the property statement (DESIGN.md appendix B)", "walk/create from an already opened fid is left open by the statement and kept out of the alphabet", "a Lock of an already held per-fid mutex in a single-threaded history is a self-deadlock and is reported as 'never returns'")
	depth, rich, dev := 16, false, 1
	fids := []p9p.Fid{0, 1, 7}
	if !c.Quick() {
		depth, rich, dev = 24, true, 2
		fids = []p9p.Fid{0, 1, 2, 7}
	}
	alpha := c08Alphabet(fids, rich)
	c.Set("max_injected_failures_per_history", dev)
	spec := explore.SeqSpec[SOp]{
		Ops:      func(key string, hist []SOp) []SOp { return alpha },
		Exec:     sessExec("C08", dev, nil),
		MaxDepth: depth,
		Workers:  runtime.NumCPU(),
		Deadline: c.Deadline,
	}
	st := explore.BFS(spec)
	c.Set("alphabet_size", len(alpha))
	reportSeq(c, st, "bfs")
}
