package props

import (
	"encoding/json"
	"fmt"
	"runtime"
	"time"

	p9p "github.com/frobnitzem/go-p9p"
	"github.com/frobnitzem/go-p9p/zzverif/core"
	"github.com/frobnitzem/go-p9p/zzverif/explore"
	"github.com/frobnitzem/go-p9p/zzverif/vsync"
)

func init() {
	Registry["C13"] = c13
	HistoryReplayers["C13"] = func(raw []byte) ([]explore.Finding, error) {
		var h []SOp
		if err := json.Unmarshal(raw, &h); err != nil {
			return nil, err
		}
		vsync.SeqMode = true
		return sessExec("C13", 9, c13Extra)(h).Findings, nil
	}
	HistoryReplayers["C08"] = func(raw []byte) ([]explore.Finding, error) {
		var h []SOp
		if err := json.Unmarshal(raw, &h); err != nil {
			return nil, err
		}
		vsync.SeqMode = true
		return sessExec("C08", 9, nil)(h).Findings, nil
	}
	HistoryReplayers["C18"] = func(raw []byte) ([]explore.Finding, error) {
		var h []ROp
		if err := json.Unmarshal(raw, &h); err != nil {
			return nil, err
		}
		vsync.SeqMode = true
		return c18Exec(h).Findings, nil
	}
}

// c13Extra is evaluated on the instance after the last step of every
// history: the release invariant, then Stop and the final accounting.
func c13Extra(r *sessRun, hist []SOp) []explore.Finding {
	var fs []explore.Finding
	bad := func(sig, format string, a ...any) {
		fs = append(fs, explore.Finding{Sig: "C13:" + sig, Msg: fmt.Sprintf(format, a...) + "\nhistory: " + histString(hist)})
	}
	now := r.noteBound()
	for e := range r.everBound {
		switch {
		case e.Released > 1:
			bad("released-twice", "entry #%d (%s) was released %d times (last by %s)", e.ID, e.PathStr, e.Released, e.By)
		case now[e] && e.Released > 0:
			bad("released-while-bound", "entry #%d (%s) was released by %s while it is still bound to a fid", e.ID, e.PathStr, e.By)
		case !now[e] && e.Released == 0:
			bad("leaked-on-unbind", "entry #%d (%s) is no longer bound to any fid but was never released", e.ID, e.PathStr)
		}
	}
	if len(fs) > 0 {
		return fs
	}
	// stop at this point of the history
	p := catch(func() { r.sess.Stop(nil) })
	if p != "" {
		bad("stop-panics", "Stop panicked: %s", p)
		return fs
	}
	for e := range r.everBound {
		if e.Released != 1 {
			bad("after-stop", "after Stop entry #%d (%s) has been released %d times (must be exactly once)", e.ID, e.PathStr, e.Released)
		}
	}
	for _, pr := range r.fs.Problems {
		bad("fs:"+firstWords(pr), "the file system observed: %s", pr)
	}
	fids, _ := p9p.VerifFids(r.sess)
	for _, f := range fids {
		if f.Bound || f.Locked {
			bad("bound-after-stop", "fid %d is still bound (or locked) after Stop", f.Fid)
		}
	}
	return fs
}

func c13(c *core.Ctx) {
	vsync.SeqMode = true
	c.Budget(70*time.Second, 13*time.Minute)
	c.SetRule("breadth-first search over histories of session operations (C08's alphabet over fids {0,1}) with up to 1 (quick) / 2 (thorough) injected file-system failures or early-stopping walks per history; after every history: each entry handle that was ever bound is bound xor released-exactly-once, none is used after release; then Stop is called on that instance and every such handle must have been released exactly once and no fid remain bound. States with equal reference fid table are merged. Concurrent part (controlled scheduler): each operation of the collision alphabet on a bound fid (and some pairs, optionally with one failing file-system call) races with Session.Stop (and Stop alone sweeps 300 bound fids) at every lock / sync.Map / atomic / file-system-call boundary up to the bound (quick 3 / delay 4; thorough: unbounded for one operation against Stop, 4 / delay 7 for pairs and fault variants); oracle: everything returns, the file system sees no overlap and no use after release, every entry bound when the race began has been released exactly once, nothing is bound or locked afterwards, and a later attach is refused")
	c.Assume("mock file system hands out uniquely identified handles and records Clunk/Remove/consuming Create per handle", "a successful Dirent.Create consumes the parent handle (as ramfs does)")
	dev := 1
	if !c.Quick() {
		dev = 2
	}
	alpha := c08Alphabet([]p9p.Fid{0, 1, 7}, !c.Quick())
	st := explore.BFS(explore.SeqSpec[SOp]{
		Ops:      func(key string, hist []SOp) []SOp { return alpha },
		Exec:     sessExec("C13", dev, c13Extra),
		MaxDepth: 24,
		Workers:  runtime.NumCPU(),
		Deadline: c.Deadline,
	})
	c.Set("alphabet_size", len(alpha))
	c.Set("max_injected_failures_per_history", dev)
	c.Set("stop_appended_after_every_history", true)
	reportSeq(c, st, "bfs")
	// concurrent part: operations racing with Session.Stop (worker processes,
	// controlled scheduler; SeqMode does not apply there)
	var plans []Plan
	for _, sp := range c13StopSpecs() {
		sc := c13StopScenario(sp)
		if len(sp.Tasks) == 0 {
			sc.MaxSteps = 200000
			plans = append(plans, Plan{Sc: sc, Max: -1}) // Stop alone over many fids: one schedule
			continue
		}
		if c.Quick() {
			plans = append(plans, Plan{Sc: sc, Max: 3, Dev: sp.Dev}, Plan{Sc: sc, Delay: true, Max: 4, Dev: sp.Dev})
		} else if len(sp.Tasks) == 1 && len(sp.Tasks[0]) == 1 && sp.Dev == 0 {
			// one operation against Stop: small enough to explore without a bound
			plans = append(plans, Plan{Sc: sc, Max: 16, Dev: sp.Dev}, Plan{Sc: sc, Delay: true, Max: 16, Dev: sp.Dev})
		} else {
			plans = append(plans, Plan{Sc: sc, Max: 4, Dev: sp.Dev}, Plan{Sc: sc, Delay: true, Max: 7, Dev: sp.Dev})
		}
	}
	runPlans(c, plans)
}
