// Package props holds one harness per property.
package props

import (
	"fmt"
	"io"
	"log"
	"reflect"
	"sort"
	"strings"
	"sync"
	"sync/atomic"
	"time"

	p9p "github.com/frobnitzem/go-p9p"
	"github.com/frobnitzem/go-p9p/zzverif/core"
	"github.com/frobnitzem/go-p9p/zzverif/explore"
)

type PropFunc func(c *core.Ctx)

// Registry maps property ids to their check.
var Registry = map[string]PropFunc{}

// ScenarioFns lists, per property, the scheduler scenarios (so that worker
// processes can find them by name).
var ScenarioFns = map[string]func() []*explore.Scenario{}

func init() { log.SetOutput(io.Discard) }

func Lookup(prop, name string) *explore.Scenario {
	f := ScenarioFns[prop]
	if f == nil {
		return nil
	}
	delay := strings.HasSuffix(name, "~d")
	name = strings.TrimSuffix(name, "~d")
	for _, s := range f() {
		if s.Name == name {
			if delay {
				return explore.WithDelay(s)
			}
			return s
		}
	}
	return nil
}

func Props() []string {
	var out []string
	for k := range Registry {
		out = append(out, k)
	}
	sort.Strings(out)
	return out
}

// Cross enumerates the full cross product of dims (mixed-radix counter) on
// `workers` goroutines; fn must be safe for concurrent use. It stops early
// when stop() turns true and reports whether the enumeration was complete.
func Cross(dims []int, workers int, stop func() bool, fn func(idx []int)) (total int64, complete bool) {
	total = 1
	for _, d := range dims {
		total *= int64(d)
	}
	if total == 0 {
		return 0, true
	}
	var next atomic.Int64
	var aborted atomic.Bool
	const chunk = 64
	var wg sync.WaitGroup
	if workers < 1 {
		workers = 1
	}
	for w := 0; w < workers; w++ {
		wg.Add(1)
		go func() {
			defer wg.Done()
			idx := make([]int, len(dims))
			for {
				lo := next.Add(chunk) - chunk
				if lo >= total {
					return
				}
				if stop != nil && stop() {
					aborted.Store(true)
					return
				}
				hi := lo + chunk
				if hi > total {
					hi = total
				}
				for n := lo; n < hi; n++ {
					r := n
					for i := len(dims) - 1; i >= 0; i-- {
						idx[i] = int(r % int64(dims[i]))
						r /= int64(dims[i])
					}
					fn(idx)
				}
			}
		}()
	}
	wg.Wait()
	return total, !aborted.Load()
}

// ---- message equality up to what the wire cannot carry ----

func normTime(t time.Time) time.Time { return time.Unix(t.Unix(), 0).UTC() }

func normDir(d p9p.Dir) p9p.Dir {
	d.AccessTime = normTime(d.AccessTime)
	d.ModTime = normTime(d.ModTime)
	return d
}

// NormMsg maps a message to a canonical form: nil for empty slices, UTC
// whole-second times.
func NormMsg(m p9p.Message) p9p.Message {
	switch v := m.(type) {
	case p9p.MessageTwalk:
		if len(v.Wnames) == 0 {
			v.Wnames = nil
		}
		return v
	case p9p.MessageRwalk:
		if len(v.Qids) == 0 {
			v.Qids = nil
		}
		return v
	case p9p.MessageRread:
		if len(v.Data) == 0 {
			v.Data = nil
		}
		return v
	case p9p.MessageTwrite:
		if len(v.Data) == 0 {
			v.Data = nil
		}
		return v
	case p9p.MessageRstat:
		v.Stat = normDir(v.Stat)
		return v
	case p9p.MessageTwstat:
		v.Stat = normDir(v.Stat)
		return v
	}
	return m
}

func EqMsg(a, b p9p.Message) bool {
	return reflect.DeepEqual(NormMsg(a), NormMsg(b))
}

func EqFcall(a, b *p9p.Fcall) bool {
	if a == nil || b == nil {
		return a == b
	}
	return a.Type == b.Type && a.Tag == b.Tag && EqMsg(a.Message, b.Message)
}

// Brief renders a message compactly (long strings and data abbreviated).
func Brief(v any) string {
	s := fmt.Sprintf("%+v", v)
	if len(s) > 300 {
		s = s[:140] + fmt.Sprintf("...(%d bytes)...", len(s)) + s[len(s)-80:]
	}
	return s
}

// catch runs f and returns a panic as an error string.
func catch(f func()) (p string) {
	defer func() {
		if r := recover(); r != nil {
			p = fmt.Sprint(r)
		}
	}()
	f()
	return ""
}
