package props

import (
	"bytes"
	"encoding/binary"
	"fmt"
	"os"
	"reflect"
	"runtime"
	"runtime/metrics"
	"runtime/pprof"
	"strings"
	"time"

	p9p "github.com/frobnitzem/go-p9p"
	"github.com/frobnitzem/go-p9p/zzverif/core"
	"github.com/frobnitzem/go-p9p/zzverif/refcodec"
)

func init() { Registry["C04"] = c04 }

// allocation bound: C + K * len(input). The constants are generous multiples
// of what the largest valid encodings need (a 60 KB Rread decodes with ~2.2
// bytes allocated per input byte; small messages stay below 8 KiB, except
// that a stat's 16-bit size prefix may cost one buffer of up to 64 KiB), so
// valid traffic can never alarm.
const (
	c04C = 128 << 10
	c04K = 64
)

type c04Target struct {
	name   string
	decode func(b []byte) (any, error) // returns the decoded value
	encode func(v any) ([]byte, error)
}

func c04Targets(codec p9p.Codec) []c04Target {
	return []c04Target{
		{"Fcall",
			func(b []byte) (any, error) {
				var fc p9p.Fcall
				err := codec.Unmarshal(b, &fc)
				return fc, err
			},
			func(v any) ([]byte, error) { fc := v.(p9p.Fcall); return codec.Marshal(&fc) }},
		{"Dir",
			func(b []byte) (any, error) {
				var d p9p.Dir
				err := p9p.DecodeDir(codec, bytes.NewReader(b), &d)
				return d, err
			},
			func(v any) ([]byte, error) { d := v.(p9p.Dir); return codec.Marshal(d) }},
	}
}

func c04Seeds() (fcalls [][]byte, dirs [][]byte) {
	names := []string{"a", "bc"}
	d := p9p.Dir{Type: 1, Dev: 2, Qid: p9p.Qid{Type: 0x80, Version: 3, Path: 4}, Mode: 0755, AccessTime: time.Unix(5, 0), ModTime: time.Unix(6, 0), Length: 7, Name: "n", UID: "uu", GID: "g", MUID: ""}
	msgs := []p9p.Message{
		p9p.MessageTversion{MSize: 8192, Version: "9P2000"}, p9p.MessageRversion{MSize: 8192, Version: "9P2000"},
		p9p.MessageTauth{Afid: 1, Uname: "u", Aname: "an"}, p9p.MessageRauth{Qid: d.Qid},
		p9p.MessageTattach{Fid: 1, Afid: 2, Uname: "u", Aname: "an"}, p9p.MessageRattach{Qid: d.Qid},
		p9p.MessageRerror{Ename: "err"}, p9p.MessageTflush{Oldtag: 3}, p9p.MessageRflush{},
		p9p.MessageTwalk{Fid: 1, Newfid: 2, Wnames: names}, p9p.MessageRwalk{Qids: []p9p.Qid{d.Qid, d.Qid}},
		p9p.MessageTopen{Fid: 1, Mode: 2}, p9p.MessageRopen{Qid: d.Qid, IOUnit: 9},
		p9p.MessageTcreate{Fid: 1, Name: "nm", Perm: 0644, Mode: 1}, p9p.MessageRcreate{Qid: d.Qid, IOUnit: 9},
		p9p.MessageTread{Fid: 1, Offset: 10, Count: 11}, p9p.MessageRread{Data: []byte("hello")},
		p9p.MessageTwrite{Fid: 1, Offset: 10, Data: []byte("hello")}, p9p.MessageRwrite{Count: 5},
		p9p.MessageTclunk{Fid: 1}, p9p.MessageRclunk{}, p9p.MessageTremove{Fid: 1}, p9p.MessageRremove{},
		p9p.MessageTstat{Fid: 1}, p9p.MessageRstat{Stat: d}, p9p.MessageTwstat{Fid: 1, Stat: d}, p9p.MessageRwstat{},
	}
	for _, m := range msgs {
		b, err := refcodec.Encode(&p9p.Fcall{Tag: 0x0102, Message: m})
		if err != nil {
			panic(err)
		}
		fcalls = append(fcalls, b)
	}
	dirs = append(dirs, refcodec.StatBytes(d), refcodec.StatBytes(p9p.Dir{}))
	return
}

var typeNames = func() (t [256]string) {
	for i := range t {
		t[i] = fmt.Sprintf("type%d", i)
	}
	return
}()

type allocMeter struct {
	precise bool
	s       []metrics.Sample
}

func (m *allocMeter) read() uint64 {
	if m.precise {
		var ms runtime.MemStats
		runtime.ReadMemStats(&ms)
		return ms.TotalAlloc
	}
	metrics.Read(m.s)
	return m.s[0].Value.Uint64()
}

type c04Run struct {
	c        *core.Ctx
	meter    *allocMeter
	n        int64
	batch    bool // allocation is metered by the caller over a batch of inputs
	recheck  bool // second pass over a suspicious batch: allocation only
	classes  map[[3]string]int64
	maxRatio float64
}

// try is the C04 oracle for one input.
func (r *c04Run) try(t *c04Target, in []byte, origin string) {
	r.tryL(t, in, func() string { return origin })
}

// tryL is try with the description of the input built only when needed.
func (r *c04Run) tryL(t *c04Target, in []byte, originf func() string) {
	r.n++
	var v any
	var err error
	var before, used uint64
	if !r.batch {
		before = r.meter.read()
	}
	p := catch(func() { v, err = t.decode(in) })
	if !r.batch {
		used = r.meter.read() - before
	}
	if !r.batch && !r.meter.precise && used*2 > uint64(c04C+c04K*len(in)) && p == "" {
		// the coarse meter only screens: judge on a precise re-measurement
		r.meter.precise = true
		before = r.meter.read()
		p = catch(func() { v, err = t.decode(in) })
		used = r.meter.read() - before
		r.meter.precise = false
	}
	kind := "short"
	if len(in) > 0 {
		if t.name == "Dir" {
			kind = "dir"
		} else {
			kind = typeNames[in[0]]
		}
	}
	var rp map[string]any
	origin := ""
	fail := func() {
		origin = originf()
		rp = map[string]any{"target": t.name, "input_hex": fmt.Sprintf("%x", head(in, 256)), "input_len": len(in), "origin": origin}
	}
	if p != "" {
		fail()
		r.c.Violation("C04:panic:"+t.name+":"+firstWords(p), fmt.Sprintf("decoding %d bytes (% x) as %s panicked: %s [%s]", len(in), head(in, 40), t.name, p, origin), rp)
		r.classes[[3]string{t.name, "panic", ""}]++
		return
	}
	bound := uint64(c04C + c04K*len(in))
	if used > bound {
		fail()
		r.c.Violation(fmt.Sprintf("C04:alloc:%s:%s", t.name, kind), fmt.Sprintf("decoding %d bytes (% x) as %s allocated %d bytes (bound %d = %d + %d*len) [%s]", len(in), head(in, 40), t.name, used, bound, c04C, c04K, origin), rp)
	}
	if r.recheck {
		return
	}
	if err != nil {
		r.classes[[3]string{t.name, kind, "reject"}]++
		return
	}
	r.classes[[3]string{t.name, kind, "accept"}]++
	// stability: decode(encode(v)) == v
	var again any
	var enc []byte
	if p := catch(func() {
		var e error
		enc, e = t.encode(v)
		if e != nil {
			panic("re-encoding failed: " + e.Error())
		}
		again, e = t.decode(enc)
		if e != nil {
			panic("decoding the re-encoding failed: " + e.Error())
		}
	}); p != "" {
		fail()
		r.c.Violation("C04:unstable:"+t.name+":"+kind, fmt.Sprintf("decoded (% x) as %s to %s but %s [%s]", head(in, 40), t.name, Brief(v), p, origin), rp)
		return
	}
	if !c04Equal(v, again) {
		fail()
		r.c.Violation("C04:unstable:"+t.name+":"+kind, fmt.Sprintf("decoded (% x) to %s; re-encoding and decoding again gives %s [%s]", head(in, 40), Brief(v), Brief(again), origin), rp)
	}
}

func c04Equal(a, b any) bool {
	switch x := a.(type) {
	case p9p.Fcall:
		y := b.(p9p.Fcall)
		return EqFcall(&x, &y)
	case p9p.Dir:
		return reflect.DeepEqual(normDir(x), normDir(b.(p9p.Dir)))
	}
	return false
}

var c04W16 = []uint16{0, 1, 0x7F, 0xFF, 0xFFFE, 0xFFFF}
var c04W32 = []uint32{0x7FFFFFFF, 0xFFFFFFFF, 0x10000, 0x00FFFFFF}

// mutations of one seed: every 2-byte and 4-byte little-endian word at
// every offset replaced by the boundary alphabet and by itself -1 / +1.
func c04Replacements(seed []byte, fn func(b []byte, what string)) {
	for off := 0; off+2 <= len(seed); off++ {
		w := binary.LittleEndian.Uint16(seed[off:])
		for _, v := range append(append([]uint16{}, c04W16...), w-1, w+1) {
			if v == w {
				continue
			}
			b := append([]byte(nil), seed...)
			binary.LittleEndian.PutUint16(b[off:], v)
			fn(b, fmt.Sprintf("u16@%d=%#x", off, v))
		}
	}
	for off := 0; off+4 <= len(seed); off++ {
		w := binary.LittleEndian.Uint32(seed[off:])
		for _, v := range append(append([]uint32{}, c04W32...), w-1, w+1) {
			if v == w {
				continue
			}
			b := append([]byte(nil), seed...)
			binary.LittleEndian.PutUint32(b[off:], v)
			fn(b, fmt.Sprintf("u32@%d=%#x", off, v))
		}
	}
}

func c04(c *core.Ctx) {
	c.SetLevel("exploration")
	c.Budget(70*time.Second, 12*time.Minute)
	c.SetRule("for Codec.Unmarshal(*Fcall) and DecodeDir: every valid seed encoding (27 kinds, 2 Dirs) with the 16-bit and 32-bit word at EVERY offset replaced by each boundary value {0,1,0x7F,0xFF,0xFFFE,0xFFFF,w-1,w+1 | 0x7FFFFFFF,0xFFFFFFFF,0x10000,0xFFFFFF,w-1,w+1}, every truncation, extensions by 1-8 bytes, every type byte; every 16-bit word at every offset swept over all 65536 values (quick: on the Twalk/Rwalk seeds; on the other seeds over 0..1100, the powers of two +-3 and the top 70 values); thorough: pairs of replacements, all byte strings of length <= 3, and per type byte every body of length <= 8 over {0,1,0xFF}. Oracle: no panic; bytes allocated (runtime.MemStats.TotalAlloc delta, single-threaded) <= 128KiB + 64*len(input); decode success => decode(encode(v)) == v. distinct = (target, type byte, accept/reject) classes")
	c.Assume("allocation is measured on this run's inputs with constants fixed in the check; it is not a proof over all byte strings", "single-threaded measurement: GOMAXPROCS is not changed but nothing else allocates while a decode runs")
	if pf := os.Getenv("VERIF_PPROF"); pf != "" {
		f, _ := os.Create(pf)
		pprof.StartCPUProfile(f)
		defer pprof.StopCPUProfile()
	}
	codec := p9p.NewCodec()
	targets := c04Targets(codec)
	fseeds, dseeds := c04Seeds()
	r := &c04Run{c: c, meter: &allocMeter{precise: true, s: []metrics.Sample{{Name: "/gc/heap/allocs:bytes"}}}, classes: map[[3]string]int64{}}
	seedsOf := func(t *c04Target) [][]byte {
		if t.name == "Dir" {
			return dseeds
		}
		return fseeds
	}
	for ti := range targets {
		t := &targets[ti]
		for si, seed := range seedsOf(t) {
			origin := fmt.Sprintf("seed %d", si)
			r.try(t, seed, origin+" unchanged")
			c04Replacements(seed, func(b []byte, what string) { r.try(t, b, origin+" "+what) })
			for cut := 0; cut < len(seed); cut++ {
				r.try(t, seed[:cut], fmt.Sprintf("%s truncated to %d", origin, cut))
			}
			for ext := 1; ext <= 8; ext++ {
				for _, fill := range []byte{0, 0xFF} {
					r.try(t, append(append([]byte(nil), seed...), bytes.Repeat([]byte{fill}, ext)...), fmt.Sprintf("%s extended by %d x %#x", origin, ext, fill))
				}
			}
			if t.name == "Fcall" {
				for tb := 0; tb < 256; tb++ {
					b := append([]byte(nil), seed...)
					b[0] = byte(tb)
					r.try(t, b, fmt.Sprintf("%s type byte %d", origin, tb))
				}
			}
		}
	}
	// self-consistent encodings of every size: a count or length field
	// together with a body that really carries that many elements / bytes
	// (the replacements above only ever make the field disagree with the
	// body). n = 0..40 and a ladder up to 5000; unchanged, every truncation
	// (n <= 40; the last 64 cuts otherwise), one byte more, count +-1.
	{
		t := &targets[0]
		q := p9p.Qid{Type: 0x80, Version: 3, Path: 4}
		var sizes []int
		for n := 0; n <= 40; n++ {
			sizes = append(sizes, n)
		}
		sizes = append(sizes, 63, 64, 65, 100, 127, 128, 129, 255, 256, 257, 511, 512, 513, 1000, 1024, 4096, 5000)
		for _, n := range sizes {
			if c.Expired() {
				break
			}
			qids := make([]p9p.Qid, n)
			names := make([]string, n)
			for i := range qids {
				qids[i] = q
				names[i] = string(rune('a' + i%26))
			}
			str := strings.Repeat("s", n)
			d := p9p.Dir{Type: 1, Dev: 2, Qid: q, Mode: 0755, AccessTime: time.Unix(5, 0), ModTime: time.Unix(6, 0), Length: 7, Name: str, UID: "uu", GID: "g", MUID: ""}
			msgs := []p9p.Message{
				p9p.MessageRwalk{Qids: qids}, p9p.MessageTwalk{Fid: 1, Newfid: 2, Wnames: names},
				p9p.MessageRread{Data: bytes.Repeat([]byte{'d'}, n)}, p9p.MessageTwrite{Fid: 1, Offset: 10, Data: bytes.Repeat([]byte{'d'}, n)},
				p9p.MessageRerror{Ename: str}, p9p.MessageTversion{MSize: 8192, Version: str},
				p9p.MessageTattach{Fid: 1, Afid: 2, Uname: str, Aname: str}, p9p.MessageTcreate{Fid: 1, Name: str, Perm: 0644, Mode: 1},
				p9p.MessageRstat{Stat: d}, p9p.MessageTwstat{Fid: 1, Stat: d},
			}
			for mi, m := range msgs {
				b, err := refcodec.Encode(&p9p.Fcall{Tag: 0x0102, Message: m})
				if err != nil {
					continue
				}
				origin := fmt.Sprintf("consistent %s n=%d", m.Type(), n)
				r.try(t, b, origin+" unchanged")
				from := 0
				if n > 40 && len(b) > 64 {
					from = len(b) - 64
				}
				for cut := from; cut < len(b); cut++ {
					r.try(t, b[:cut], fmt.Sprintf("%s truncated to %d", origin, cut))
				}
				r.try(t, append(append([]byte(nil), b...), 0), origin+" extended by 1")
				if mi < 2 { // the list counts, one off in either direction
					off := 3
					if mi == 1 {
						off = 11
					}
					for _, dlt := range []int{-1, 1} {
						if v := n + dlt; v >= 0 {
							b2 := append([]byte(nil), b...)
							binary.LittleEndian.PutUint16(b2[off:], uint16(v))
							r.try(t, b2, fmt.Sprintf("%s count=%d", origin, v))
						}
					}
				}
			}
			if n <= 300 {
				sb := refcodec.StatBytes(d)
				r.try(&targets[1], sb, fmt.Sprintf("consistent Dir name=%d unchanged", n))
				for cut := 0; cut < len(sb); cut++ {
					r.try(&targets[1], sb[:cut], fmt.Sprintf("consistent Dir name=%d truncated to %d", n, cut))
				}
			}
		}
	}
	// every 16-bit word at every offset takes ALL 65536 values (counts and
	// lengths are 16-bit fields): quick on the kinds that carry lists, data
	// or a stat; thorough on every seed
	{
		rechecked := 0
		r.meter.precise = false
		sweepKinds := map[int]bool{9: true, 10: true} // Twalk Rwalk: the list counts
		sparse := map[int]bool{}
		for _, n := range sweepLens(true) {
			if n < 1<<16 {
				sparse[n] = true
			}
		}
		for ti := range targets {
			t := &targets[ti]
			for si, seed := range seedsOf(t) {
				// quick: all 65536 values on the list-carrying seeds, the dense
				// length set of C01 (0..1100, powers of two +-3, top of the
				// range) on the others
				full := !c.Quick() || (t.name == "Fcall" && sweepKinds[si])
				for off := 0; off+2 <= len(seed) && !c.Expired(); off++ {
					b := append([]byte(nil), seed...)
					si, off := si, off
					const batch = 64
					for v0 := 0; v0 < 1<<16; v0 += batch {
						// allocation is screened per batch of 64 inputs (coarse meter);
						// a batch that allocates more than the constant C is
						// measured again input by input (coarse screen, then precise)
						r.batch = true
						before := r.meter.read()
						for v := v0; v < v0+batch; v++ {
							v := v
							if !full && !sparse[v] {
								continue
							}
							binary.LittleEndian.PutUint16(b[off:], uint16(v))
							r.tryL(t, b, func() string { return fmt.Sprintf("seed %d u16@%d=%#x (full 16-bit sweep)", si, off, v) })
						}
						r.batch = false
						if r.meter.read()-before > c04C {
							r.recheck = true // per input: coarse screen, precise measurement where that is suspicious
							for v := v0; v < v0+batch; v++ {
								v := v
								if !full && !sparse[v] {
									continue
								}
								binary.LittleEndian.PutUint16(b[off:], uint16(v))
								r.tryL(t, b, func() string { return fmt.Sprintf("seed %d u16@%d=%#x (full 16-bit sweep)", si, off, v) })
								r.n--
							}
							r.recheck = false
							rechecked++
						}
					}
				}
			}
		}
		r.meter.precise = true
		if c.Expired() {
			c.NotExhaustive("time budget (16-bit sweep)")
		}
		c.Set("sweep_batches_remeasured_precisely", rechecked)
	}
	if !c.Quick() {
		// per type byte: 3-byte header + every body of length <= 8 over {0,1,0xFF}
		t := &targets[0]
		alpha := []byte{0, 1, 0xFF}
		for tb := 100; tb <= 127 && !c.Expired(); tb++ {
			for L := 0; L <= 8; L++ {
				dims := make([]int, L)
				for i := range dims {
					dims[i] = 3
				}
				if L == 0 {
					dims = []int{1}
				}
				Cross(dims, 1, nil, func(idx []int) {
					b := []byte{byte(tb), 1, 0}
					for i := 0; i < L; i++ {
						b = append(b, alpha[idx[i]])
					}
					r.try(t, b, "enumerated body")
				})
			}
		}
		// the same bodies as directory entries
		for L := 0; L <= 8 && !c.Expired(); L++ {
			dims := make([]int, L)
			for i := range dims {
				dims[i] = 3
			}
			if L == 0 {
				dims = []int{1}
			}
			Cross(dims, 1, nil, func(idx []int) {
				var b []byte
				for i := 0; i < L; i++ {
					b = append(b, alpha[idx[i]])
				}
				r.try(&targets[1], b, "enumerated bytes")
			})
		}
		// all byte strings of length <= 3 (coarse allocation meter: the
		// precise one stops the world on every read)
		r.meter.precise = false
		for n := 0; n < 1<<24 && !c.Expired(); n++ {
			b := []byte{byte(n), byte(n >> 8), byte(n >> 16)}
			r.try(&targets[0], b, "all 3-byte strings")
			if n < 1<<16 {
				r.try(&targets[0], b[:2], "all 2-byte strings")
				r.try(&targets[1], b[:2], "all 2-byte strings")
			}
			if n < 256 {
				r.try(&targets[0], b[:1], "all 1-byte strings")
			}
			if n%4 == 0 {
				r.try(&targets[1], b, "3-byte strings (every 4th)")
			}
		}
		// pairs of replacements on every seed
		for ti := range targets {
			t := &targets[ti]
			for si, seed := range seedsOf(t) {
				if c.Expired() {
					break
				}
				origin := fmt.Sprintf("seed %d pair", si)
				c04Replacements(seed, func(b1 []byte, w1 string) {
					if strings.HasPrefix(w1, "u32") {
						return
					}
					c04Replacements(b1, func(b2 []byte, w2 string) {
						if strings.HasPrefix(w2, "u32") && !strings.Contains(w2, "0x7fffffff") && !strings.Contains(w2, "0xffffffff") {
							return
						}
						r.try(t, b2, origin+" "+w1+" "+w2)
					})
				})
			}
		}
		if c.Expired() {
			c.NotExhaustive("time budget")
		}
	}
	c.Count(r.n, 0, 0, 0)
	for k, v := range r.classes {
		c.Outcome(strings.TrimSuffix(k[0]+"/"+k[1]+"/"+k[2], "/"), v)
	}
	c.Sample(map[string]any{"seed_hex": fmt.Sprintf("%x", fseeds[9]), "mutation": "u16@11=0xffff (nwname)", "bound": "128KiB + 64*len"})
	c.Set("seeds", len(fseeds)+len(dseeds))
}
