package props

import (
	"context"
	"fmt"
	"math"
	"runtime"
	"sort"
	"strings"
	"time"

	p9p "github.com/frobnitzem/go-p9p"
	"github.com/frobnitzem/go-p9p/ramfs"
	"github.com/frobnitzem/go-p9p/zzverif/core"
	"github.com/frobnitzem/go-p9p/zzverif/explore"
	"github.com/frobnitzem/go-p9p/zzverif/vsync"
)

func init() {
	Registry["C18"] = c18
}

// ROp is one operation on ramfs at the FileSys/Dirent/File level, the
// level at which a session drives it.
type ROp struct {
	Kind  string // attach walk create open read write stat trunc rename clunk remove list
	H     int    // index of the live handle
	Names []string
	Name  string
	Dir   bool
	Off   int64
	N     int
}

func (o ROp) String() string {
	switch o.Kind {
	case "attach":
		return "attach"
	case "walk":
		return fmt.Sprintf("h%d.walk(%q)", o.H, o.Names)
	case "create":
		return fmt.Sprintf("h%d.create(%q,dir=%v)", o.H, o.Name, o.Dir)
	case "read":
		return fmt.Sprintf("h%d.read(off=%d,n=%d)", o.H, o.Off, o.N)
	case "write":
		return fmt.Sprintf("h%d.write(off=%d,n=%d)", o.H, o.Off, o.N)
	case "trunc":
		return fmt.Sprintf("h%d.wstat(length=%d)", o.H, o.Off)
	}
	return fmt.Sprintf("h%d.%s", o.H, o.Kind)
}

// ---- reference tree of byte arrays (DESIGN.md appendix C) ----

type rNode struct {
	id       int
	dir      bool
	children map[string]*rNode
	data     []byte
}

type rHandle struct {
	node   *rNode
	chain  []*rNode // ancestors as walked, root first
	opened bool
}

type rModel struct {
	root    *rNode
	nextID  int
	handles []*rHandle
}

func newRModel() *rModel {
	m := &rModel{}
	m.root = &rNode{id: 0, dir: true, children: map[string]*rNode{}}
	m.nextID = 1
	return m
}

func (m *rModel) key() string {
	var b strings.Builder
	var dump func(n *rNode)
	seen := map[*rNode]bool{}
	dump = func(n *rNode) {
		seen[n] = true
		if !n.dir {
			fmt.Fprintf(&b, "f%d[%s]", n.id, n.data)
			return
		}
		fmt.Fprintf(&b, "d%d{", n.id)
		var names []string
		for k := range n.children {
			names = append(names, k)
		}
		sort.Strings(names)
		for _, k := range names {
			b.WriteString(k + ":")
			dump(n.children[k])
			b.WriteString(",")
		}
		b.WriteString("}")
	}
	dump(m.root)
	for i, h := range m.handles {
		fmt.Fprintf(&b, "|h%d=", i)
		for _, c := range h.chain {
			if !seen[c] {
				dump(c) // detached subtree kept alive by the handle
			} else {
				fmt.Fprintf(&b, "%d", c.id)
			}
			b.WriteString("/")
		}
		if !seen[h.node] {
			dump(h.node)
		} else {
			fmt.Fprintf(&b, "%d", h.node.id)
		}
		fmt.Fprintf(&b, "o%v", h.opened)
	}
	return b.String()
}

type c18Run struct {
	fs     p9p.FileSys
	model  *rModel
	live   []p9p.Dirent
	files  []p9p.File
	poison bool
	// every tree node any handle ever referred to
	nodes   []interface{}
	nodeSet map[interface{}]bool
}

func newC18Run() *c18Run {
	return &c18Run{fs: ramfs.VerifNewServer(), model: newRModel(), nodeSet: map[interface{}]bool{}}
}

func payload(n int, seed int) []byte {
	b := make([]byte, n)
	for i := range b {
		b[i] = "wxyzWXYZ"[(i+seed)%8]
	}
	return b
}

func (r *c18Run) do(o ROp, step int, hist []ROp) (findings []explore.Finding, outcome string, skip bool) {
	bad := func(sig, format string, a ...any) {
		var hs []string
		for _, h := range hist {
			hs = append(hs, h.String())
		}
		findings = append(findings, explore.Finding{Sig: "C18:" + sig, Msg: fmt.Sprintf(format, a...) + "\nhistory: " + strings.Join(hs, "; ")})
	}
	ctx := context.Background()
	m := r.model
	var h p9p.Dirent
	var mh *rHandle
	if o.Kind != "attach" {
		if o.H >= len(r.live) {
			return nil, "stale", true
		}
		h, mh = r.live[o.H], m.handles[o.H]
	}
	outcome = o.Kind + ":ok"
	fail := func() { outcome = o.Kind + ":err" }
	var pan string
	switch o.Kind {
	case "attach":
		var e p9p.Dirent
		var err error
		pan = catch(func() { e, err = r.fs.Attach(ctx, "u", "", nil) })
		if pan != "" {
			break
		}
		if err != nil {
			bad("attach", "attach failed: %v", err)
			break
		}
		r.live = append(r.live, e)
		r.files = append(r.files, nil)
		m.handles = append(m.handles, &rHandle{node: m.root})
	case "walk":
		if mh.opened {
			return nil, "", true
		}
		var qids []p9p.Qid
		var ne p9p.Dirent
		var err error
		pan = catch(func() { qids, ne, err = h.Walk(ctx, o.Names...) })
		if pan != "" {
			break
		}
		// model
		chain := append(append([]*rNode{}, mh.chain...), mh.node)
		want := 0
		ok := true
		for _, n := range o.Names {
			cur := chain[len(chain)-1]
			if n == ".." {
				if len(chain) == 1 {
					ok = false // climbing above the root is rejected outright
					want = -1
					break
				}
				chain = chain[:len(chain)-1]
				want++
				continue
			}
			if !cur.dir || cur.children[n] == nil {
				break
			}
			chain = append(chain, cur.children[n])
			want++
		}
		switch {
		case want == -1 || (len(o.Names) > 0 && want == 0):
			if err == nil {
				bad("walk-accepts", "%s succeeded with %d qids; the model tree rejects it (not found / above the root)", o, len(qids))
			}
			fail()
		case err != nil:
			bad("walk-rejects", "%s failed with %v; the model tree resolves %d element(s)", o, err, want)
		case len(qids) != want:
			bad("walk-qids", "%s returned %d qids, the model tree resolves %d", o, len(qids), want)
		case want == len(o.Names) && ok:
			if len(r.live) >= 3 {
				// keep the state space finite: release it again at once
				ne.Clunk(ctx)
				break
			}
			r.live = append(r.live, ne)
			r.files = append(r.files, nil)
			m.handles = append(m.handles, &rHandle{node: chain[len(chain)-1], chain: chain[:len(chain)-1]})
			if ne.Qid().Type&p9p.QTDIR != 0 != chain[len(chain)-1].dir {
				bad("walk-kind", "%s reached a %v, model says dir=%v", o, ne.Qid(), chain[len(chain)-1].dir)
			}
		default:
			outcome = "walk:partial"
		}
	case "create":
		if mh.opened {
			return nil, "", true
		}
		perm := uint32(0644)
		if o.Dir {
			perm = p9p.DMDIR | 0755
		}
		var ne p9p.Dirent
		var nf p9p.File
		var err error
		pan = catch(func() { ne, nf, err = h.Create(ctx, o.Name, perm, p9p.ORDWR) })
		if pan != "" {
			break
		}
		validName := o.Name != "" && o.Name != "." && o.Name != ".." && !strings.ContainsAny(o.Name, "/\\")
		wantOK := validName && mh.node.dir && mh.node.children[o.Name] == nil
		if wantOK != (err == nil) {
			bad("create-result", "%s returned err=%v, the model says ok=%v", o, err, wantOK)
			break
		}
		if err != nil {
			fail()
			break
		}
		nn := &rNode{id: m.nextID, dir: o.Dir}
		m.nextID++
		if o.Dir {
			nn.children = map[string]*rNode{}
		}
		mh.node.children[o.Name] = nn
		// the handle moves onto the new node, opened
		m.handles[o.H] = &rHandle{node: nn, chain: append(append([]*rNode{}, mh.chain...), mh.node), opened: true}
		r.live[o.H] = ne
		r.files[o.H] = nf
	case "open":
		if mh.opened || mh.node.dir {
			return nil, "", true
		}
		var f p9p.File
		var err error
		pan = catch(func() { f, err = h.Open(ctx, p9p.ORDWR) })
		if pan != "" {
			break
		}
		if err != nil {
			bad("open", "%s failed: %v", o, err)
			break
		}
		mh.opened = true
		r.files[o.H] = f
	case "read":
		if !mh.opened || mh.node.dir || r.files[o.H] == nil {
			return nil, "", true
		}
		buf := make([]byte, o.N)
		var n int
		var err error
		pan = catch(func() { n, err = r.files[o.H].Read(ctx, buf, o.Off) })
		if pan != "" {
			break
		}
		data := mh.node.data
		switch {
		case o.Off < 0:
			if err == nil && n != 0 {
				bad("read-negative-offset", "%s returned %d bytes for an offset outside [0, 2^63)", o, n)
			}
			fail()
		case o.Off > int64(len(data)):
			if n != 0 {
				bad("read-beyond-end", "%s returned %d bytes beyond the end (file has %d)", o, n, len(data))
			}
			fail()
		default:
			want := data[o.Off:]
			if len(want) > o.N {
				want = want[:o.N]
			}
			if err != nil || string(buf[:n]) != string(want) {
				bad("read-data", "%s returned %q, %v; the bytes most recently written there are %q", o, buf[:n], err, want)
			}
		}
	case "write":
		if !mh.opened || mh.node.dir || r.files[o.H] == nil {
			return nil, "", true
		}
		p := payload(o.N, step)
		var n int
		var err error
		pan = catch(func() { n, err = r.files[o.H].Write(ctx, p, o.Off) })
		if pan != "" {
			break
		}
		data := mh.node.data
		if o.Off < 0 || o.Off > int64(len(data)) {
			if err == nil {
				bad("write-bad-offset-accepted", "%s accepted (file has %d bytes)", o, len(data))
			}
			fail()
			break
		}
		if err != nil || n != len(p) {
			bad("write-result", "%s returned %d, %v", o, n, err)
			break
		}
		end := int(o.Off) + len(p)
		nd := append([]byte{}, data...)
		for len(nd) < end {
			nd = append(nd, 0)
		}
		copy(nd[o.Off:], p)
		mh.node.data = nd
	case "stat":
		var d p9p.Dir
		var err error
		pan = catch(func() { d, err = h.Stat(ctx) })
		if pan == "" && (err != nil || (d.Mode&p9p.DMDIR != 0) != mh.node.dir) {
			bad("stat", "%s = %v, %v; model dir=%v", o, d, err, mh.node.dir)
		}
	case "trunc":
		if mh.node.dir {
			return nil, "", true
		}
		var err error
		pan = catch(func() {
			err = h.WStat(ctx, p9p.Dir{Mode: ^uint32(0), Length: uint64(o.Off)})
		})
		if pan != "" {
			break
		}
		if o.Off <= int64(len(mh.node.data)) {
			if err != nil {
				bad("truncate", "%s failed: %v", o, err)
			}
			mh.node.data = mh.node.data[:o.Off]
		} else {
			if err == nil {
				bad("truncate-grows", "%s accepted although the file has only %d bytes", o, len(mh.node.data))
			}
			fail()
		}
	case "list":
		if !mh.node.dir || mh.opened {
			return nil, "", true
		}
		var next p9p.ReadNext
		var err error
		var got []string
		pan = catch(func() {
			next, err = h.OpenDir(ctx)
			if err != nil {
				return
			}
			for i := 0; i < 10; i++ {
				ds, e := next(ctx)
				if e != nil || len(ds) == 0 {
					err = e
					return
				}
				for _, d := range ds {
					got = append(got, d.Name)
				}
			}
		})
		if pan != "" {
			break
		}
		want := []string{".."}
		for k := range mh.node.children {
			want = append(want, k)
		}
		sort.Strings(got)
		sort.Strings(want)
		if err != nil || strings.Join(got, ",") != strings.Join(want, ",") {
			bad("listing", "%s lists %q (err %v); the model directory holds %q", o, got, err, want)
		}
	case "clunk", "remove":
		var err error
		pan = catch(func() {
			if o.Kind == "clunk" {
				err = h.Clunk(ctx)
			} else {
				err = h.Remove(ctx)
			}
		})
		if pan != "" {
			break
		}
		if o.Kind == "remove" {
			removed := false
			if len(mh.chain) > 0 {
				parent := mh.chain[len(mh.chain)-1]
				for name, n := range parent.children {
					if n == mh.node {
						delete(parent.children, name)
						removed = true
					}
				}
			}
			if removed != (err == nil) {
				if removed {
					bad("remove-fails", "%s failed (%v) although the handle's node is still linked in the parent it was reached through", o, err)
				} else if len(mh.chain) == 0 {
					bad("remove-root", "%s: removing the root must be refused", o)
				} else {
					// stale handle: the link is gone (or names something else now)
					bad("remove-stale", "%s reported success although the link to the handle's own node no longer exists: it removed whatever now has that name", o)
				}
			}
			if err != nil {
				fail()
			}
		}
		r.live = append(r.live[:o.H], r.live[o.H+1:]...)
		r.files = append(r.files[:o.H], r.files[o.H+1:]...)
		m.handles = append(m.handles[:o.H], m.handles[o.H+1:]...)
	}
	for _, h := range r.live {
		for _, n := range ramfs.VerifHandleNodes(h) {
			if !r.nodeSet[n] {
				r.nodeSet[n] = true
				r.nodes = append(r.nodes, n)
			}
		}
	}
	if pan != "" {
		r.poison = true
		bad("panic:"+o.Kind, "%s panicked: %s", o, pan)
		return findings, o.Kind + ":panic", false
	}
	if len(findings) > 0 {
		r.poison = true
	}
	return findings, outcome, false
}

// epilogue: compare the whole tree through a fresh handle, then clunk every
// handle and validate reference counts.
func (r *c18Run) epilogue(hist []ROp) (findings []explore.Finding) {
	bad := func(sig, format string, a ...any) {
		var hs []string
		for _, h := range hist {
			hs = append(hs, h.String())
		}
		findings = append(findings, explore.Finding{Sig: "C18:" + sig, Msg: fmt.Sprintf(format, a...) + "\nhistory: " + strings.Join(hs, "; ")})
	}
	ctx := context.Background()
	p := catch(func() {
		// walk the model tree through the implementation
		root, err := r.fs.Attach(ctx, "u", "", nil)
		if err != nil {
			bad("epilogue", "attach: %v", err)
			return
		}
		var visit func(h p9p.Dirent, n *rNode, path string)
		visit = func(h p9p.Dirent, n *rNode, path string) {
			if n.dir {
				next, err := h.OpenDir(ctx)
				var got []string
				for err == nil {
					var ds []p9p.Dir
					ds, err = next(ctx)
					if len(ds) == 0 {
						break
					}
					for _, d := range ds {
						got = append(got, d.Name)
					}
				}
				want := []string{".."}
				for k := range n.children {
					want = append(want, k)
				}
				sort.Strings(got)
				sort.Strings(want)
				if strings.Join(got, ",") != strings.Join(want, ",") {
					bad("tree-listing", "directory %s lists %q, the model tree has %q", path, got, want)
				}
				for k, c := range n.children {
					_, ch, err := h.Walk(ctx, k)
					if err != nil {
						bad("tree-walk", "cannot walk to %s%s: %v", path, k, err)
						continue
					}
					visit(ch, c, path+k+"/")
					ch.Clunk(ctx)
				}
				return
			}
			f, err := h.Open(ctx, p9p.OREAD)
			if err != nil {
				bad("tree-open", "open %s: %v", path, err)
				return
			}
			buf := make([]byte, len(n.data)+8)
			k, _ := f.Read(ctx, buf, 0)
			if string(buf[:k]) != string(n.data) {
				bad("tree-data", "file %s holds %q, the model holds %q", path, buf[:k], n.data)
			}
		}
		visit(root, r.model.root, "/")
		root.Clunk(ctx)
		for _, h := range r.live {
			h.Clunk(ctx)
		}
		if err := ramfs.VerifValidate(r.fs, r.nodes...); err != nil {
			bad("refcount", "with every handle clunked, reference counts do not equal parent links: %v", err)
		}
	})
	if p != "" {
		bad("panic:epilogue", "panic while reading the tree back / clunking: %s", p)
	}
	return findings
}

func c18Ops(rich bool) func(key string, hist []ROp) []ROp {
	offs := []int64{0, 1, math.MaxInt64, math.MinInt64, -1}
	return func(key string, hist []ROp) []ROp {
		n := strings.Count(key, "|h")
		var ops []ROp
		if n < 2 || (rich && n < 3) {
			ops = append(ops, ROp{Kind: "attach"})
		}
		nameLists := [][]string{{}, {"a"}, {".."}, {"a", "b"}, {"b"}, {"..", "a"}}
		if rich {
			nameLists = append(nameLists, []string{"..", ".."}, []string{"a", "a"}, []string{"..", "b"}, []string{"..", "..", "a"}, []string{"..", "..", "b"}, []string{"..", "..", ".."})
		}
		for h := 0; h < n; h++ {
			for _, nl := range nameLists {
				ops = append(ops, ROp{Kind: "walk", H: h, Names: nl})
			}
			ops = append(ops, ROp{Kind: "create", H: h, Name: "a"}, ROp{Kind: "create", H: h, Name: "a", Dir: true}, ROp{Kind: "create", H: h, Name: "b"})
			if rich {
				ops = append(ops, ROp{Kind: "create", H: h, Name: "b", Dir: true}, ROp{Kind: "create", H: h, Name: ".."}, ROp{Kind: "create", H: h, Name: "a/b"})
			}
			ops = append(ops, ROp{Kind: "open", H: h}, ROp{Kind: "stat", H: h}, ROp{Kind: "list", H: h}, ROp{Kind: "clunk", H: h}, ROp{Kind: "remove", H: h})
			for _, off := range offs {
				ops = append(ops, ROp{Kind: "read", H: h, Off: off, N: 4})
				ops = append(ops, ROp{Kind: "write", H: h, Off: off, N: 2})
			}
			ops = append(ops,
				ROp{Kind: "read", H: h, Off: 2, N: 70000}, ROp{Kind: "read", H: h, Off: 3, N: 0}, ROp{Kind: "read", H: h, Off: 1, N: 1},
				ROp{Kind: "write", H: h, Off: 2, N: 0}, ROp{Kind: "write", H: h, Off: 3, N: 1}, ROp{Kind: "write", H: h, Off: 2, N: 1},
				ROp{Kind: "trunc", H: h, Off: 0}, ROp{Kind: "trunc", H: h, Off: 1}, ROp{Kind: "trunc", H: h, Off: 9},
				// lengths between a shortened file's size and its earlier size
				ROp{Kind: "trunc", H: h, Off: 2}, ROp{Kind: "trunc", H: h, Off: 3})
		}
		return ops
	}
}

func c18Exec(hist []ROp) explore.SeqResult[ROp] {
	r := newC18Run()
	var res explore.SeqResult[ROp]
	for i, o := range hist {
		fs, oc, skip := r.do(o, i, hist[:i+1])
		if skip {
			res.Dead, res.Key, res.Outcome = true, "skip", "not-in-alphabet"
			return res
		}
		if i == len(hist)-1 {
			res.Findings, res.Outcome = fs, oc
		} else if len(fs) > 0 {
			res.Dead, res.Key = true, "dead"
			return res
		}
		if r.poison {
			res.Dead = true
			break
		}
	}
	// files may not grow without bound
	for _, h := range r.model.handles {
		if len(h.node.data) > 4 {
			res.Dead = true
		}
	}
	res.Key = r.model.key()
	if !r.poison {
		res.Findings = append(res.Findings, r.epilogue(hist)...)
	}
	if len(res.Findings) > 0 {
		res.Dead = true
	}
	return res
}

func c18(c *core.Ctx) {
	vsync.SeqMode = true
	c.Budget(100*time.Second, 14*time.Minute)
	c.SetRule("sequential part: breadth-first search over histories of attach / walk (incl. '..' chains) / create file+dir / open / read+write at offsets {0,1,2,3,2^63-1,2^63,2^64-1} with counts {0,1,2,4,70000} / stat / truncate / list / clunk / remove through up to 2 (quick) / 3 (thorough) handles (= sessions) on a fresh ramfs server, names {a,b}, files up to 4 bytes; after every step the result is compared with a reference tree of byte arrays; after every history the whole tree is read back through a fresh handle, every handle is clunked and nref==links is validated (hook); states with equal reference tree+handles are merged. concurrent part: see coverage.concurrent")
	c.Assume("reference tree from the statement (DESIGN.md appendix C): remove deletes the link to the handle's own node only", "operations a session never issues (read/write/open on directory handles, walk/create from an opened handle) are outside the alphabet")
	depth := 7
	if !c.Quick() {
		depth = 10
	}
	st := explore.BFS(explore.SeqSpec[ROp]{
		Ops:      c18Ops(!c.Quick()),
		Exec:     c18Exec,
		MaxDepth: depth,
		Workers:  runtime.NumCPU(),
		Deadline: c.Deadline,
	})
	c.Count(st.Transitions, st.States, st.Transitions, st.Transitions)
	for k, v := range st.Outcomes {
		c.Outcome(k, v)
	}
	for _, h := range st.Samples {
		var hs []string
		for _, o := range h {
			hs = append(hs, o.String())
		}
		c.Sample(strings.Join(hs, "; "))
	}
	c.Set("bfs_depth_reached", st.Depth)
	c.Set("bfs_fixpoint", st.Fixpoint)
	if !st.Complete {
		c.NotExhaustive("time budget (sequential part)")
	}
	// a second search from a non-initial state: a depth-3 tree with one
	// handle deep inside it and one at the root (states the first search
	// only reaches beyond its depth bound)
	prelude := []ROp{
		{Kind: "attach"}, {Kind: "attach"},
		{Kind: "create", H: 0, Name: "a", Dir: true}, {Kind: "clunk", H: 0}, // /a
		{Kind: "walk", H: 0, Names: []string{"a"}}, {Kind: "create", H: 1, Name: "b", Dir: true}, {Kind: "clunk", H: 1}, // /a/b
		{Kind: "walk", H: 0, Names: []string{"a"}}, {Kind: "create", H: 1, Name: "a", Dir: true}, {Kind: "clunk", H: 1}, // /a/a
		{Kind: "walk", H: 0, Names: []string{"a", "b"}}, {Kind: "create", H: 1, Name: "a", Dir: true}, {Kind: "clunk", H: 1}, // /a/b/a
		{Kind: "walk", H: 0, Names: []string{"a", "b", "a"}}, // h0 = /, h1 = /a/b/a (closed)
	}
	d2 := 3
	if !c.Quick() {
		d2 = 5
	}
	deepOps := c18Ops(true)
	st2 := explore.BFS(explore.SeqSpec[ROp]{
		Ops: deepOps,
		Exec: func(hist []ROp) explore.SeqResult[ROp] {
			return c18Exec(append(append([]ROp{}, prelude...), hist...))
		},
		MaxDepth: d2,
		Workers:  runtime.NumCPU(),
		Deadline: c.Deadline,
	})
	c.Count(st2.Transitions, st2.States, st2.Transitions, st2.Transitions)
	for k, v := range st2.Outcomes {
		c.Outcome("deep:"+k, v)
	}
	c.Set("bfs_from_deep_tree_depth", st2.Depth)
	if !st2.Complete {
		c.NotExhaustive("time budget (search from the deep tree)")
	}
	for _, v := range st2.Viol {
		full := append(append([]ROp{}, prelude...), v.Hist...)
		var hs []string
		for _, o := range full {
			hs = append(hs, o.String())
		}
		c.Violation(v.Sig, v.Msg, map[string]any{"history": full, "history_text": hs})
	}
	for _, v := range st.Viol {
		var hs []string
		for _, o := range v.Hist {
			hs = append(hs, o.String())
		}
		c.Violation(v.Sig, v.Msg, map[string]any{"history": v.Hist, "history_text": hs})
	}
	// concurrent sessions on the shared tree, under the controlled scheduler
	var plans []Plan
	var raceScs []*explore.Scenario
	for _, sc := range c18Scenarios() {
		if strings.HasPrefix(sc.Name, "race/") {
			raceScs = append(raceScs, sc)
			continue
		}
		if c.Quick() {
			plans = append(plans, Plan{Sc: sc, Max: 3}, Plan{Sc: sc, Delay: true, Max: 4})
		} else {
			plans = append(plans, Plan{Sc: sc, Max: 12}, Plan{Sc: sc, Delay: true, Max: 12})
		}
	}
	runPlans(c, plans)
	rb := 2
	if !c.Quick() {
		rb = 6
	}
	runRaceMode(c, raceScs, rb)
	c.Set("concurrent", "2-3 sessions x 1-2 operations on one shared ramfs tree (create|walk, create|create-same-name, create|list, write|read, write|write|read, remove|walk-up, remove|create-inside, clunk|walk, remove|remove-same, create|remove|walk); every interleaving at every lock operation up to the bound; oracle: no panic, all return, brute-force linearizability against the reference tree incl. the final tree read back, nref==links after clunking everything")
}
