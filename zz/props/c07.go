package props

import (
	"fmt"
	"strings"
	"time"

	p9p "github.com/frobnitzem/go-p9p"
	"github.com/frobnitzem/go-p9p/zzverif/core"
	"github.com/frobnitzem/go-p9p/zzverif/explore"
	"github.com/frobnitzem/go-p9p/zzverif/vsched"
)

func init() {
	Registry["C07"] = c07
	ScenarioFns["C07"] = c07Scenarios
}

type c07State struct {
	*serveRun
	clientEnd   string
	flushIdx    int  // index in replies of the flush's reply (-1: none)
	flushOK     bool // Rflush (as opposed to an error reply)
	r1Invoked   bool
	r1DoneAtAck bool // R1's handler context was done when the client had the Rflush
	reuseTag    p9p.Tag
	noSuchTag   bool
	secondFlush bool
}

// c07Scenario: R1 (id 0, tag 1); Tflush(tag 2) of tag 1 (or of a tag never
// used); once the flush's reply was read, R2 (id 2) on reuseTag; then the
// client reads R2's reply and closes.
func c07Scenario(name string, mode, hsteps int, reuseTag p9p.Tag, noSuchTag bool, sync bool) *explore.Scenario {
	return &explore.Scenario{
		Name:  name,
		Cache: true,
		Body: func() any {
			st := &c07State{serveRun: newServeRun(sync, &scriptHandler{Mode: mode, Steps: hsteps}), flushIdx: -1, reuseTag: reuseTag, noSuchTag: noSuchTag}
			st.startServer()
			vsched.Go("client", func() {
				if !st.negotiate(65536) {
					st.clientEnd = "negotiation failed"
					return
				}
				old := p9p.Tag(1)
				if noSuchTag {
					old = 9
				}
				if st.send(1, c06Msg(0, 0)) != nil || st.send(2, p9p.MessageTflush{Oldtag: old}) != nil {
					st.clientEnd = "write failed"
					return
				}
				for st.flushIdx < 0 {
					fc, ok := st.recv()
					if !ok {
						st.clientEnd = "stream ended before the flush was answered"
						return
					}
					if fc != nil && fc.Tag == 2 {
						st.flushIdx = len(st.replies) - 1
						_, st.flushOK = fc.Message.(p9p.MessageRflush)
					}
				}
				// sample R1's handler context now that the flush is acknowledged
				vsched.Yield("poll-ctx", vsched.CtxObj)
				for _, inv := range st.h.Calls {
					if reqID(inv.Msg) == 0 {
						st.r1Invoked = true
						st.r1DoneAtAck = inv.Ctx.Err() != nil
					}
				}
				if st.send(reuseTag, c06Msg(2, 0)) != nil {
					st.clientEnd = "write failed"
					return
				}
				// read until a reply on reuseTag arrives after the flush's reply
				for {
					got := false
					for _, r := range st.replies[st.flushIdx+1:] {
						if r.Tag == reuseTag {
							got = true
						}
					}
					if got {
						break
					}
					if _, ok := st.recv(); !ok {
						st.clientEnd = "stream ended before R2 was answered"
						return
					}
				}
				// a request that was not flushed is awaited too
				for noSuchTag {
					got := false
					for _, r := range st.replies {
						if replyID(r.Message) == 0 {
							got = true
						}
					}
					if got {
						break
					}
					if _, ok := st.recv(); !ok {
						st.clientEnd = "stream ended before R1 was answered"
						return
					}
				}
				st.cli.Close()
				st.clientEnd = "ok"
			})
			return st
		},
		Check: c07Check,
	}
}

func c07Check(state any, e *vsched.Exec) (string, []explore.Finding) {
	st := state.(*c07State)
	var fs []explore.Finding
	bad := func(sig, format string, a ...any) {
		fs = append(fs, explore.Finding{Sig: "C07:" + sig, Msg: fmt.Sprintf(format, a...) + "\nlog: " + strings.Join(e.Log, " | ")})
	}
	if len(e.Panics) > 0 {
		bad("panic", "a task panicked: %s", panicList(e))
	}
	if e.Horizon {
		return "horizon", fs
	}
	for _, f := range st.cli.TryFrames() {
		if fc, _, err := decodeFrame(f); err == nil {
			st.replies = append(st.replies, fc)
		} else {
			st.badFrames = append(st.badFrames, err.Error())
		}
	}
	if len(st.badFrames) > 0 {
		bad("undecodable-reply", "%v", st.badFrames)
	}
	var order []string
	flushReplies, r1Replies, r2Replies := 0, 0, 0
	ackSeen := false
	for _, r := range st.replies {
		id := replyID(r.Message)
		switch {
		case r.Tag == 2:
			flushReplies++
			ackSeen = true
			if _, ok := r.Message.(p9p.MessageRflush); ok {
				order = append(order, "Rflush")
			} else {
				order = append(order, "Rerror(flush)")
			}
		case id == 0:
			r1Replies++
			order = append(order, "R1")
			if ackSeen && !st.noSuchTag {
				bad("reply-after-flush", "the flushed request's reply %s was sent after the flush had been acknowledged (it reached the client on tag %d)", Brief(r.Message), r.Tag)
			}
			if r.Tag != 1 {
				bad("wrong-tag", "R1's result on tag %d", r.Tag)
			}
		case id == 2:
			r2Replies++
			order = append(order, "R2")
			if r.Tag != st.reuseTag {
				bad("wrong-tag", "R2's result on tag %d, sent on %d", r.Tag, st.reuseTag)
			}
		default:
			order = append(order, "other")
			bad("stray-reply", "unexpected reply %s", Brief(r))
		}
	}
	if st.flushIdx >= 0 {
		if flushReplies != 1 {
			bad("flush-replies", "the flush received %d replies", flushReplies)
		}
		if st.noSuchTag {
			// a flush of a tag that is not outstanding still gets exactly one reply
		} else if st.flushOK && st.r1Invoked && !st.r1DoneAtAck {
			bad("not-cancelled", "flush acknowledged but the flushed request's handler context is not cancelled")
		}
		if r1Replies > 1 {
			bad("multiple-replies", "R1 received %d replies", r1Replies)
		}
		if st.noSuchTag && r1Replies != 1 && st.clientEnd == "ok" {
			bad("missing-reply", "R1 was not flushed (the flush named another tag) but received %d replies", r1Replies)
		}
	}
	if st.clientEnd == "ok" || st.clientEnd == "stream ended before R2 was answered" {
		if r2Replies != 1 {
			bad("r2-replies", "the request reusing the freed tag received %d replies carrying its own result (replies in order: %s)", r2Replies, strings.Join(order, ","))
		}
	}
	if st.clientEnd != "ok" && len(fs) == 0 {
		bad("client-stuck", "client did not finish: %q; blocked: %s", st.clientEnd, blockedList(e))
	}
	// (whether serving winds down after the client closed is C11's business)
	return strings.Join(order, ",") + fmt.Sprintf(" ctxdone=%v", st.r1DoneAtAck), fs
}

type c07MultiState struct {
	*serveRun
	clientEnd string
}

// c07Multi: R1 (id 0, tag 1) and R3 (id 4, tag 3) outstanding; two flushes
// of tag 1 (tags 2 and 5); once both are answered, R2 (id 2) reuses tag 1;
// the client reads until R2 and R3 are answered.
func c07Multi(name string, mode int) *explore.Scenario {
	return &explore.Scenario{
		Name:  name,
		Cache: true,
		Body: func() any {
			st := &c07MultiState{serveRun: newServeRun(false, &scriptHandler{Mode: mode})}
			st.startServer()
			vsched.Go("client", func() {
				if !st.negotiate(65536) {
					st.clientEnd = "negotiation failed"
					return
				}
				st.send(1, c06Msg(0, 0))
				st.send(3, c06Msg(4, 1))
				st.send(2, p9p.MessageTflush{Oldtag: 1})
				st.send(5, p9p.MessageTflush{Oldtag: 1})
				count := func(tag p9p.Tag) int {
					n := 0
					for _, r := range st.replies {
						if r.Tag == tag {
							n++
						}
					}
					return n
				}
				for count(2) == 0 || count(5) == 0 {
					if _, ok := st.recv(); !ok {
						st.clientEnd = "stream ended before both flushes were answered"
						return
					}
				}
				acked := len(st.replies)
				st.send(1, c06Msg(2, 0))
				for {
					r2, r3 := false, false
					for i, r := range st.replies {
						if r.Tag == 1 && i >= acked {
							r2 = true
						}
						if r.Tag == 3 {
							r3 = true
						}
					}
					if r2 && r3 {
						break
					}
					if _, ok := st.recv(); !ok {
						st.clientEnd = "stream ended before R2 and R3 were answered"
						return
					}
				}
				st.cli.Close()
				st.clientEnd = "ok"
			})
			return st
		},
		Check: func(state any, e *vsched.Exec) (string, []explore.Finding) {
			st := state.(*c07MultiState)
			var fs []explore.Finding
			bad := func(sig, format string, a ...any) {
				fs = append(fs, explore.Finding{Sig: "C07:" + sig, Msg: fmt.Sprintf(format, a...) + "\nlog: " + strings.Join(e.Log, " | ")})
			}
			if len(e.Panics) > 0 {
				bad("panic", "%s", panicList(e))
			}
			if e.Horizon {
				return "horizon", fs
			}
			for _, f := range st.cli.TryFrames() {
				if fc, _, err := decodeFrame(f); err == nil {
					st.replies = append(st.replies, fc)
				}
			}
			var order []string
			n := map[string]int{}
			firstAck := -1
			for i, r := range st.replies {
				id := replyID(r.Message)
				switch {
				case r.Tag == 2 || r.Tag == 5:
					n[fmt.Sprint("flush", r.Tag)]++
					if _, ok := r.Message.(p9p.MessageRflush); ok && firstAck < 0 {
						firstAck = i
					}
					order = append(order, fmt.Sprint("F", r.Tag))
				case id == 0:
					n["r1"]++
					order = append(order, "R1")
					if firstAck >= 0 {
						bad("reply-after-flush", "the flushed request's reply was sent after a flush of it had been acknowledged (on tag %d)", r.Tag)
					}
				case id == 4:
					n["r3"]++
					order = append(order, "R3")
					if r.Tag != 3 {
						bad("wrong-tag", "R3's result on tag %d", r.Tag)
					}
				case id == 2:
					n["r2"]++
					order = append(order, "R2")
					if r.Tag != 1 {
						bad("wrong-tag", "R2's result on tag %d", r.Tag)
					}
				default:
					order = append(order, "other")
					bad("stray-reply", "unexpected reply %s", Brief(r))
				}
			}
			if st.clientEnd == "ok" {
				if n["flush2"] != 1 || n["flush5"] != 1 {
					bad("flush-replies", "the two flushes received %d and %d replies", n["flush2"], n["flush5"])
				}
				if n["r3"] != 1 {
					bad("bystander-replies", "the request that was not flushed received %d replies", n["r3"])
				}
				if n["r2"] != 1 {
					bad("r2-replies", "the request reusing the freed tag received %d replies of its own (order %s)", n["r2"], strings.Join(order, ","))
				}
				if n["r1"] > 1 {
					bad("multiple-replies", "R1 received %d replies", n["r1"])
				}
			} else if len(fs) == 0 {
				bad("client-stuck", "client did not finish: %q; blocked: %s", st.clientEnd, blockedList(e))
			}
			return strings.Join(order, ","), fs
		},
	}
}

// c07DepScenario: R1 (a read, id 0, tag 1) blocks until cancelled; RK (any
// other kind, id 2, tag 3) is handled by a handler that returns only after
// R1's has (a clunk queued behind a blocked read on the same fid); then
// Tflush(R1) on tag 2. The flush must be acknowledged and RK answered; no
// reply to R1 may follow the acknowledgement. A dispatch loop that handles RK
// inline can never see the flush.
func c07DepScenario(kind string, rk p9p.Message) *explore.Scenario {
	type depState struct {
		*serveRun
		clientEnd string
	}
	return &explore.Scenario{
		Name:  "flush-releases-dependent/" + kind,
		Cache: true,
		Body: func() any {
			st := &depState{serveRun: newServeRun(false, &scriptHandler{Mode: DepOn0})}
			st.startServer()
			vsched.Go("client", func() {
				if !st.negotiate(65536) {
					st.clientEnd = "negotiation failed"
					return
				}
				if st.send(1, c06Msg(0, 0)) != nil || st.send(3, rk) != nil || st.send(2, p9p.MessageTflush{Oldtag: 1}) != nil {
					st.clientEnd = "write failed"
					return
				}
				ack, rkDone := false, false
				for !ack || !rkDone {
					fc, ok := st.recv()
					if !ok {
						st.clientEnd = "stream ended early"
						return
					}
					if fc != nil && fc.Tag == 2 {
						ack = true
					}
					if fc != nil && fc.Tag == 3 {
						rkDone = true
					}
				}
				st.cli.Close()
				st.clientEnd = "ok"
			})
			return st
		},
		Check: func(state any, e *vsched.Exec) (string, []explore.Finding) {
			st := state.(*depState)
			var fs []explore.Finding
			bad := func(sig, format string, a ...any) {
				fs = append(fs, explore.Finding{Sig: "C07:" + sig, Msg: fmt.Sprintf(format, a...) + "\nlog: " + strings.Join(e.Log, " | ")})
			}
			if len(e.Panics) > 0 {
				bad("panic", "a task panicked: %s", panicList(e))
			}
			if e.Horizon {
				return "horizon", fs
			}
			for _, f := range st.cli.TryFrames() {
				if fc, _, err := decodeFrame(f); err == nil {
					st.replies = append(st.replies, fc)
				}
			}
			var order []string
			ack := false
			nack, nrk := 0, 0
			for _, r := range st.replies {
				switch r.Tag {
				case 2:
					ack = true
					nack++
					order = append(order, "Rflush")
				case 3:
					nrk++
					order = append(order, "RK")
					if want, err := resultFor(rk); err == nil && fmt.Sprintf("%T", want) != fmt.Sprintf("%T", r.Message) {
						bad("wrong-reply", "the %s request was answered with %s", kind, Brief(r.Message))
					}
				case 1:
					order = append(order, "R1")
					if ack {
						bad("reply-after-flush", "the flushed request's reply %s was sent after the flush had been acknowledged", Brief(r.Message))
					}
				default:
					bad("stray-reply", "unexpected reply %s", Brief(r))
				}
			}
			if st.clientEnd != "ok" && len(fs) == 0 {
				bad("client-stuck", "the flush of the blocked request was never acknowledged, or the %s request behind it never answered (client: %q, %d acknowledgements, %d replies to it); blocked: %s", kind, st.clientEnd, nack, nrk, blockedList(e))
			}
			if nack > 1 || nrk > 1 {
				bad("multiple-replies", "%d flush replies, %d replies to the %s request", nack, nrk, kind)
			}
			return strings.Join(order, ",") + " client=" + st.clientEnd, fs
		},
	}
}

func c07DepScenarios() []*explore.Scenario {
	d := p9p.Dir{Name: "n"}
	kinds := []struct {
		n string
		m p9p.Message
	}{
		{"Tclunk", p9p.MessageTclunk{Fid: 2}}, {"Tstat", p9p.MessageTstat{Fid: 2}}, {"Tread", p9p.MessageTread{Fid: 2, Count: 4}},
		{"Twrite", p9p.MessageTwrite{Fid: 2, Data: []byte{1}}}, {"Topen", p9p.MessageTopen{Fid: 2}}, {"Twalk", p9p.MessageTwalk{Fid: 2, Newfid: 9, Wnames: []string{"a"}}},
		{"Tcreate", p9p.MessageTcreate{Fid: 2, Name: "n", Perm: 0644}}, {"Tremove", p9p.MessageTremove{Fid: 2}}, {"Twstat", p9p.MessageTwstat{Fid: 2, Stat: d}},
		{"Tattach", p9p.MessageTattach{Fid: 2, Afid: p9p.NOFID, Uname: "u"}}, {"Tauth", p9p.MessageTauth{Afid: 2, Uname: "u"}},
	}
	var out []*explore.Scenario
	for _, k := range kinds {
		out = append(out, c07DepScenario(k.n, k.m))
	}
	return out
}

func c07Scenarios() []*explore.Scenario {
	var out []*explore.Scenario
	out = append(out, c07DepScenarios()...)
	modes := []struct {
		n    string
		mode int
		st   int
	}{{"ignore", IgnoreCtx, 0}, {"ignore2", IgnoreCtx, 1}, {"honour", HonourCtx, 0}, {"block", BlockCtx, 0}}
	for _, m := range modes {
		out = append(out, c07Scenario("flush-reuse/"+m.n, m.mode, m.st, 1, false, false))
	}
	out = append(out, c07Scenario("flush-othertag/ignore", IgnoreCtx, 0, 3, false, false))
	out = append(out, c07Scenario("flush-unknown/ignore", IgnoreCtx, 0, 3, true, false))
	out = append(out, c07Scenario("flush-unknown/honour", HonourCtx, 0, 3, true, false))
	out = append(out, c07Scenario("flush-reuse/ignore/sync", IgnoreCtx, 0, 1, false, true))
	out = append(out, c07Multi("double-flush+bystander/ignore", IgnoreCtx), c07Multi("double-flush+bystander/honour", HonourCtx))
	return out
}

func c07(c *core.Ctx) {
	c.Budget(90*time.Second, 12*time.Minute)
	c.SetRule("scenarios: R1; Tflush(R1) (or of an unused tag); after the flush's reply was read, R2 reusing R1's tag (or another); handlers ignoring / racing / blocking on cancellation; and, for each of 11 request kinds, a request whose handler returns only after the blocked R1's does, followed by the flush of R1 (the flush must still be processed); every interleaving of the real ServeConn goroutines incl. every ready select case, up to the preemption bound; outcome = order of replies seen by the client + whether R1's context was done at the acknowledgement")
	c.Assume("scheduling points at channel, select, mutex, once, sync.Map, context-cancel and conn operations; sequentially consistent interleavings only")
	var small, big, dep []*explore.Scenario
	for _, sc := range c07Scenarios() {
		if strings.HasPrefix(sc.Name, "flush-releases-dependent/") {
			dep = append(dep, sc)
		} else if strings.HasPrefix(sc.Name, "double-flush") {
			big = append(big, sc)
		} else {
			small = append(small, sc)
		}
	}
	if c.Quick() {
		runPlans(c, append(append(both(small, 2, 4, 0), both(big, -1, 3, 0)...), both(dep, -1, 2, 0)...))
	} else {
		runPlans(c, append(append(both(small, 4, 7, 0), both(big, 1, 5, 0)...), both(dep, 2, 4, 0)...))
	}
}
