package props

import (
	"context"
	"fmt"
	"sort"
	"strings"

	p9p "github.com/frobnitzem/go-p9p"
	"github.com/frobnitzem/go-p9p/ramfs"
	"github.com/frobnitzem/go-p9p/zzverif/explore"
	"github.com/frobnitzem/go-p9p/zzverif/vsched"
)

func init() {
	ScenarioFns["C18"] = c18Scenarios
}

// COp is one operation of a concurrent ramfs scenario; handles are named.
type COp struct {
	Kind  string // walk create remove clunk write read list
	H     string // handle operated on
	New   string // walk: name of the new handle
	Names []string
	Name  string
	Dir   bool
	Off   int64
	Data  string
	N     int
}

func (o COp) String() string {
	switch o.Kind {
	case "walk":
		return fmt.Sprintf("%s.walk(%q)->%s", o.H, o.Names, o.New)
	case "create":
		return fmt.Sprintf("%s.create(%q,dir=%v)", o.H, o.Name, o.Dir)
	case "write":
		return fmt.Sprintf("%s.write(%d,%q)", o.H, o.Off, o.Data)
	case "read":
		return fmt.Sprintf("%s.read(%d,%d)", o.H, o.Off, o.N)
	}
	return o.H + "." + o.Kind
}

type cRes struct {
	OK    bool
	NQids int
	Data  string
	List  string
}

func (r cRes) String() string {
	return fmt.Sprintf("{ok=%v q=%d data=%q list=%s}", r.OK, r.NQids, r.Data, r.List)
}

// ---- reference tree with named handles (deep-copyable) ----

type cNode struct {
	dir      bool
	children map[string]*cNode
	data     string
}

type cHandle struct {
	node  *cNode
	chain []*cNode
}

type cModel struct {
	root    *cNode
	handles map[string]*cHandle
}

func (m *cModel) clone() *cModel {
	mp := map[*cNode]*cNode{}
	var cp func(n *cNode) *cNode
	cp = func(n *cNode) *cNode {
		if n == nil {
			return nil
		}
		if c, ok := mp[n]; ok {
			return c
		}
		c := &cNode{dir: n.dir, data: n.data}
		mp[n] = c
		if n.children != nil {
			c.children = map[string]*cNode{}
			for k, v := range n.children {
				c.children[k] = cp(v)
			}
		}
		return c
	}
	out := &cModel{root: cp(m.root), handles: map[string]*cHandle{}}
	for k, h := range m.handles {
		nh := &cHandle{node: cp(h.node)}
		for _, c := range h.chain {
			nh.chain = append(nh.chain, cp(c))
		}
		out.handles[k] = nh
	}
	return out
}

func (m *cModel) treeString() string {
	var b strings.Builder
	var dump func(n *cNode)
	dump = func(n *cNode) {
		if !n.dir {
			fmt.Fprintf(&b, "[%s]", n.data)
			return
		}
		b.WriteString("{")
		var ks []string
		for k := range n.children {
			ks = append(ks, k)
		}
		sort.Strings(ks)
		for _, k := range ks {
			b.WriteString(k + ":")
			dump(n.children[k])
			b.WriteString(",")
		}
		b.WriteString("}")
	}
	dump(m.root)
	return b.String()
}

// apply is the sequential specification of one operation.
func (m *cModel) apply(o COp) cRes {
	h := m.handles[o.H]
	if h == nil {
		return cRes{}
	}
	switch o.Kind {
	case "walk":
		chain := append(append([]*cNode{}, h.chain...), h.node)
		got := 0
		for _, n := range o.Names {
			cur := chain[len(chain)-1]
			if n == ".." {
				if len(chain) == 1 {
					return cRes{}
				}
				chain = chain[:len(chain)-1]
				got++
				continue
			}
			if !cur.dir || cur.children[n] == nil {
				break
			}
			chain = append(chain, cur.children[n])
			got++
		}
		if len(o.Names) > 0 && got == 0 {
			return cRes{}
		}
		if got == len(o.Names) {
			m.handles[o.New] = &cHandle{node: chain[len(chain)-1], chain: chain[:len(chain)-1]}
		}
		return cRes{OK: true, NQids: got}
	case "create":
		if !h.node.dir || h.node.children[o.Name] != nil {
			return cRes{}
		}
		nn := &cNode{dir: o.Dir}
		if o.Dir {
			nn.children = map[string]*cNode{}
		}
		h.node.children[o.Name] = nn
		m.handles[o.H] = &cHandle{node: nn, chain: append(append([]*cNode{}, h.chain...), h.node)}
		return cRes{OK: true}
	case "remove":
		ok := false
		if len(h.chain) > 0 {
			p := h.chain[len(h.chain)-1]
			for k, n := range p.children {
				if n == h.node {
					delete(p.children, k)
					ok = true
				}
			}
		}
		delete(m.handles, o.H)
		return cRes{OK: ok}
	case "clunk":
		delete(m.handles, o.H)
		return cRes{OK: true}
	case "write":
		d := h.node.data
		if o.Off < 0 || o.Off > int64(len(d)) {
			return cRes{}
		}
		nd := []byte(d)
		for int64(len(nd)) < o.Off+int64(len(o.Data)) {
			nd = append(nd, 0)
		}
		copy(nd[o.Off:], o.Data)
		h.node.data = string(nd)
		return cRes{OK: true}
	case "read":
		d := h.node.data
		if o.Off < 0 || o.Off > int64(len(d)) {
			return cRes{}
		}
		e := o.Off + int64(o.N)
		if e > int64(len(d)) {
			e = int64(len(d))
		}
		return cRes{OK: true, Data: d[o.Off:e]}
	case "stat", "chmod":
		return cRes{OK: true}
	case "trunc":
		if o.Off > int64(len(h.node.data)) {
			return cRes{}
		}
		h.node.data = h.node.data[:o.Off]
		return cRes{OK: true}
	case "list":
		if !h.node.dir {
			return cRes{}
		}
		ks := []string{".."}
		for k := range h.node.children {
			ks = append(ks, k)
		}
		sort.Strings(ks)
		return cRes{OK: true, List: strings.Join(ks, ",")}
	}
	return cRes{}
}

// ---- implementation side ----

type cRec struct {
	Op        COp
	Task      int
	Call, Ret int
	Res       cRes
	Returned  bool
}

type c18Conc struct {
	fs      p9p.FileSys
	handles map[string]p9p.Dirent
	files   map[string]p9p.File
	setup   []COp
	recs    []*cRec
	clock   int
	setupOK bool
}

func (st *c18Conc) exec(o COp) cRes {
	ctx := context.Background()
	h := st.handles[o.H]
	if h == nil {
		return cRes{}
	}
	switch o.Kind {
	case "walk":
		q, nh, err := h.Walk(ctx, o.Names...)
		if err != nil {
			return cRes{}
		}
		if len(q) == len(o.Names) {
			st.handles[o.New] = nh
		}
		return cRes{OK: true, NQids: len(q)}
	case "create":
		perm := uint32(0644)
		if o.Dir {
			perm = p9p.DMDIR | 0755
		}
		nh, f, err := h.Create(ctx, o.Name, perm, p9p.ORDWR)
		if err != nil {
			return cRes{}
		}
		st.handles[o.H] = nh
		st.files[o.H] = f
		return cRes{OK: true}
	case "remove":
		err := h.Remove(ctx)
		delete(st.handles, o.H)
		return cRes{OK: err == nil}
	case "clunk":
		h.Clunk(ctx)
		delete(st.handles, o.H)
		return cRes{OK: true}
	case "write":
		f := st.file(o.H)
		if f == nil {
			return cRes{}
		}
		_, err := f.Write(ctx, []byte(o.Data), o.Off)
		return cRes{OK: err == nil}
	case "read":
		f := st.file(o.H)
		if f == nil {
			return cRes{}
		}
		buf := make([]byte, o.N)
		n, err := f.Read(ctx, buf, o.Off)
		if err != nil {
			return cRes{}
		}
		return cRes{OK: true, Data: string(buf[:n])}
	case "stat":
		_, err := h.Stat(ctx)
		return cRes{OK: err == nil}
	case "trunc":
		err := h.WStat(ctx, p9p.Dir{Mode: ^uint32(0), Length: uint64(o.Off)})
		return cRes{OK: err == nil}
	case "chmod":
		mode := uint32(0700)
		if h.Qid().Type&p9p.QTDIR != 0 {
			mode |= p9p.DMDIR
		}
		err := h.WStat(ctx, p9p.Dir{Mode: mode, Length: ^uint64(0), UID: "x"})
		return cRes{OK: err == nil}
	case "list":
		next, err := h.OpenDir(ctx)
		if err != nil {
			return cRes{}
		}
		var ks []string
		for {
			ds, err := next(ctx)
			if err != nil || len(ds) == 0 {
				break
			}
			for _, d := range ds {
				ks = append(ks, d.Name)
			}
		}
		sort.Strings(ks)
		return cRes{OK: true, List: strings.Join(ks, ",")}
	}
	return cRes{}
}

func (st *c18Conc) file(h string) p9p.File {
	if f := st.files[h]; f != nil {
		return f
	}
	f, err := st.handles[h].Open(context.Background(), p9p.ORDWR)
	if err != nil {
		return nil
	}
	st.files[h] = f
	return f
}

type c18Spec struct {
	Name  string
	Setup []COp // run sequentially first; handles "r0","r1",... are root handles created on demand
	Tasks [][]COp
}

// c18Pairs: every unordered pair of operations by two sessions holding
// handles on the same directory, and on the same file.
func c18Pairs() []c18Spec {
	w := func(h, nw string, names ...string) COp { return COp{Kind: "walk", H: h, New: nw, Names: names} }
	cr := func(h, name string, dir bool) COp { return COp{Kind: "create", H: h, Name: name, Dir: dir} }
	// /d (dir) with /d/f (file holding "abcd"); x,y on /d; fx,fy on /d/f
	setup := []COp{cr("r0", "d", true), w("r1", "x", "d"), w("r2", "y", "d"), w("r3", "t", "d"), cr("t", "f", false),
		{Kind: "write", H: "t", Off: 0, Data: "abcd"}, w("x", "fx", "f"), w("y", "fy", "f")}
	dirOps := func(h string, n string) []COp {
		return []COp{w(h, n+"1", "f"), w(h, n+"2", ".."), w(h, n+"3"), cr(h, "g", false), cr(h, "f", false), {Kind: "list", H: h}, {Kind: "stat", H: h}, {Kind: "chmod", H: h}, {Kind: "remove", H: h}, {Kind: "clunk", H: h}}
	}
	fileOps := func(h string, n string) []COp {
		return []COp{{Kind: "read", H: h, Off: 0, N: 8}, {Kind: "write", H: h, Off: 1, Data: "XY"}, {Kind: "write", H: h, Off: 4, Data: "Z"}, {Kind: "trunc", H: h, Off: 2}, {Kind: "stat", H: h}, {Kind: "remove", H: h}, {Kind: "clunk", H: h}, w(h, n+"u", "..")}
	}
	var out []c18Spec
	gen := func(tag string, a, b []COp) {
		for i := range a {
			for j := i; j < len(b); j++ {
				out = append(out, c18Spec{Name: fmt.Sprintf("pair/%s/%s|%s", tag, a[i].Kind+fmt.Sprint(a[i].Names, a[i].Name, a[i].Off), b[j].Kind+fmt.Sprint(b[j].Names, b[j].Name, b[j].Off)), Setup: setup, Tasks: [][]COp{{a[i]}, {b[j]}}})
			}
		}
	}
	gen("dir", dirOps("x", "p"), dirOps("y", "q"))
	gen("file", fileOps("fx", "p"), fileOps("fy", "q"))
	gen("mixed", dirOps("x", "p")[3:9], fileOps("fy", "q"))
	return out
}

func c18Specs() []c18Spec { return append(c18Hand(), c18Pairs()...) }

func c18Hand() []c18Spec {
	w := func(h, nw string, names ...string) COp { return COp{Kind: "walk", H: h, New: nw, Names: names} }
	cr := func(h, name string, dir bool) COp { return COp{Kind: "create", H: h, Name: name, Dir: dir} }
	return []c18Spec{
		{Name: "create|walk", Tasks: [][]COp{{cr("r0", "a", false)}, {w("r1", "x", "a")}}},
		{Name: "create|create-same", Tasks: [][]COp{{cr("r0", "a", false)}, {cr("r1", "a", true)}}},
		{Name: "create|list", Tasks: [][]COp{{cr("r0", "a", false)}, {{Kind: "list", H: "r1"}}}},
		{Name: "write|read", Setup: []COp{cr("r0", "a", false), w("r1", "x", "a")},
			Tasks: [][]COp{{{Kind: "write", H: "r0", Off: 0, Data: "xy"}}, {{Kind: "read", H: "x", Off: 0, N: 4}}}},
		{Name: "write|write|read", Setup: []COp{cr("r0", "a", false), w("r1", "x", "a"), {Kind: "write", H: "r0", Off: 0, Data: "ab"}},
			Tasks: [][]COp{{{Kind: "write", H: "r0", Off: 1, Data: "X"}}, {{Kind: "write", H: "x", Off: 2, Data: "YZ"}, {Kind: "read", H: "x", Off: 0, N: 8}}}},
		{Name: "remove|walkup", Setup: []COp{cr("r0", "d", true), w("r1", "x", "d"), w("r2", "y", "d")},
			Tasks: [][]COp{{{Kind: "remove", H: "x"}}, {w("y", "z", ".."), {Kind: "list", H: "z"}}}},
		{Name: "remove|create-inside", Setup: []COp{cr("r0", "d", true), w("r1", "x", "d"), w("r2", "y", "d")},
			Tasks: [][]COp{{{Kind: "remove", H: "x"}}, {cr("y", "f", false)}}},
		{Name: "clunk|walk", Setup: []COp{cr("r0", "d", true), w("r1", "x", "d"), w("r2", "y", "d")},
			Tasks: [][]COp{{{Kind: "clunk", H: "x"}, {Kind: "clunk", H: "r0"}}, {w("y", "z", ".."), {Kind: "clunk", H: "y"}}}},
		{Name: "remove|remove-same", Setup: []COp{cr("r0", "a", false), w("r1", "x", "a")},
			Tasks: [][]COp{{{Kind: "remove", H: "r0"}}, {{Kind: "remove", H: "x"}}}},
		{Name: "stat|write", Setup: []COp{cr("r0", "a", false), w("r1", "x", "a")},
			Tasks: [][]COp{{{Kind: "write", H: "r0", Off: 0, Data: "xy"}}, {{Kind: "stat", H: "x"}}}},
		{Name: "trunc|read", Setup: []COp{cr("r0", "a", false), w("r1", "x", "a"), {Kind: "write", H: "r0", Off: 0, Data: "abcd"}},
			Tasks: [][]COp{{{Kind: "trunc", H: "r0", Off: 1}}, {{Kind: "read", H: "x", Off: 0, N: 8}}}},
		{Name: "list|write-child", Setup: []COp{cr("r0", "a", false)},
			Tasks: [][]COp{{{Kind: "write", H: "r0", Off: 0, Data: "xy"}}, {{Kind: "list", H: "r1"}}}},
		{Name: "clunk|clunk-shared-dir", Setup: []COp{cr("r0", "d", true), w("r1", "x", "d"), w("r2", "y", "d"), {Kind: "remove", H: "r0"}},
			Tasks: [][]COp{{{Kind: "clunk", H: "x"}}, {{Kind: "clunk", H: "y"}}}},
		{Name: "stat|trunc", Setup: []COp{cr("r0", "a", false), w("r1", "x", "a")},
			Tasks: [][]COp{{{Kind: "trunc", H: "r0", Off: 0}}, {{Kind: "stat", H: "x"}}}},
		{Name: "list|chmod-dir", Setup: []COp{cr("r0", "d", true), w("r1", "x", "d"), w("r2", "y", "d")},
			Tasks: [][]COp{{{Kind: "chmod", H: "x"}}, {{Kind: "list", H: "y"}}, {{Kind: "chmod", H: "r3"}}}},
		{Name: "walk|chmod-dir", Setup: []COp{cr("r0", "d", true), w("r1", "x", "d")},
			Tasks: [][]COp{{{Kind: "chmod", H: "x"}}, {w("r2", "y", "d"), w("y", "z", "..")}, {cr("r3", "e", false)}}},
		{Name: "create|remove|walk", Setup: []COp{cr("r0", "a", false), w("r1", "x", "a")},
			Tasks: [][]COp{{{Kind: "remove", H: "x"}}, {cr("r2", "b", false)}, {w("r3", "y", "a")}}},
	}
}

func c18ConcScenario(sp c18Spec) *explore.Scenario {
	spec := sp
	return &explore.Scenario{
		Name:  "concurrent/" + spec.Name,
		Cache: false,
		Body: func() any {
			st := &c18Conc{fs: ramfs.VerifNewServer(), handles: map[string]p9p.Dirent{}, files: map[string]p9p.File{}, setup: spec.Setup, setupOK: true}
			ctx := context.Background()
			// root handles r0..r3 (one per session)
			for i := 0; i < 4; i++ {
				h, err := st.fs.Attach(ctx, fmt.Sprintf("u%d", i), "", nil)
				if err != nil {
					st.setupOK = false
				}
				st.handles[fmt.Sprintf("r%d", i)] = h
			}
			for _, o := range spec.Setup {
				if r := st.exec(o); !r.OK {
					st.setupOK = false
				}
			}
			for ti, ops := range spec.Tasks {
				ti, ops := ti, ops
				vsched.Go(fmt.Sprintf("session%d", ti), func() {
					for _, o := range ops {
						rec := &cRec{Op: o, Task: ti}
						st.recs = append(st.recs, rec)
						st.clock++
						rec.Call = st.clock
						rec.Res = st.exec(o)
						st.clock++
						rec.Ret = st.clock
						rec.Returned = true
					}
				})
			}
			return st
		},
		Check: c18ConcCheck,
	}
}

func c18ConcCheck(state any, e *vsched.Exec) (string, []explore.Finding) {
	st := state.(*c18Conc)
	var fs []explore.Finding
	bad := func(sig, format string, a ...any) {
		var os []string
		for _, r := range st.recs {
			os = append(os, fmt.Sprintf("s%d:%s[%d..%d]=%v", r.Task, r.Op, r.Call, r.Ret, r.Res))
		}
		fs = append(fs, explore.Finding{Sig: "C18:concurrent:" + sig, Msg: fmt.Sprintf(format, a...) + "\noperations: " + strings.Join(os, " ; ")})
	}
	if len(e.Panics) > 0 {
		bad("panic", "the server would crash: %s\n%s", panicList(e), e.Panics[0].Stack)
		return "panic", fs
	}
	if !st.setupOK {
		bad("setup", "setup failed")
		return "setup", fs
	}
	for _, r := range st.recs {
		if !r.Returned {
			bad("never-returns", "%s never returns; blocked: %s", r.Op, blockedList(e))
			return "deadlock", fs
		}
	}
	// read the final tree back (sequentially, after the tasks are done)
	var final string
	p := catch(func() {
		probe := &c18Run{fs: st.fs, model: newRModel(), nodeSet: map[interface{}]bool{}}
		_ = probe
		final = c18ReadTree(st.fs)
	})
	if p != "" {
		bad("panic:readback", "%s", p)
		return "panic", fs
	}
	// linearizability against the reference tree
	m0 := &cModel{root: &cNode{dir: true, children: map[string]*cNode{}}, handles: map[string]*cHandle{}}
	for i := 0; i < 4; i++ {
		m0.handles[fmt.Sprintf("r%d", i)] = &cHandle{node: m0.root}
	}
	for _, o := range st.setup {
		m0.apply(o)
	}
	n := len(st.recs)
	used := make([]bool, n)
	var order []int
	var try func(m *cModel) bool
	try = func(m *cModel) bool {
		if len(order) == n {
			return m.treeString() == final
		}
		for i := 0; i < n; i++ {
			if used[i] {
				continue
			}
			legal := true
			for j := 0; j < n; j++ {
				if !used[j] && j != i && st.recs[j].Ret < st.recs[i].Call {
					legal = false
				}
			}
			if !legal {
				continue
			}
			mc := m.clone()
			if got := mc.apply(st.recs[i].Op); got != st.recs[i].Res {
				continue
			}
			used[i] = true
			order = append(order, i)
			if try(mc) {
				return true
			}
			order = order[:len(order)-1]
			used[i] = false
		}
		return false
	}
	if !try(m0) {
		bad("not-linearizable", "no sequential order of the sessions' operations consistent with real time yields these results and the final tree %s", final)
	}
	// reference counts once every handle is clunked
	p = catch(func() {
		var nodes []interface{}
		for _, h := range st.handles {
			nodes = append(nodes, ramfs.VerifHandleNodes(h)...)
		}
		for _, h := range st.handles {
			h.Clunk(context.Background())
		}
		if err := ramfs.VerifValidate(st.fs, nodes...); err != nil {
			bad("refcount", "with every handle clunked: %v", err)
		}
	})
	if p != "" {
		bad("panic:clunk", "%s", p)
	}
	var rs []string
	for _, r := range st.recs {
		rs = append(rs, fmt.Sprintf("%s=%v", r.Op.Kind, r.Res))
	}
	sort.Strings(rs)
	return strings.Join(rs, ",") + " final=" + final, fs
}

// c18ReadTree renders the whole tree through a fresh handle.
func c18ReadTree(fsys p9p.FileSys) string {
	ctx := context.Background()
	root, err := fsys.Attach(ctx, "probe", "", nil)
	if err != nil {
		return "attach-error"
	}
	var b strings.Builder
	var visit func(h p9p.Dirent)
	visit = func(h p9p.Dirent) {
		if h.Qid().Type&p9p.QTDIR == 0 {
			f, _ := h.Open(ctx, p9p.OREAD)
			buf := make([]byte, 64)
			n, _ := f.Read(ctx, buf, 0)
			fmt.Fprintf(&b, "[%s]", buf[:n])
			return
		}
		next, _ := h.OpenDir(ctx)
		var ks []string
		for {
			ds, err := next(ctx)
			if err != nil || len(ds) == 0 {
				break
			}
			for _, d := range ds {
				if d.Name != ".." {
					ks = append(ks, d.Name)
				}
			}
		}
		sort.Strings(ks)
		b.WriteString("{")
		for _, k := range ks {
			b.WriteString(k + ":")
			_, ch, err := h.Walk(ctx, k)
			if err != nil {
				b.WriteString("?")
			} else {
				visit(ch)
				ch.Clunk(ctx)
			}
			b.WriteString(",")
		}
		b.WriteString("}")
	}
	visit(root)
	root.Clunk(ctx)
	return b.String()
}

func c18Scenarios() []*explore.Scenario {
	var out []*explore.Scenario
	for _, sp := range c18Specs() {
		out = append(out, c18ConcScenario(sp))
	}
	for _, sp := range c18Specs() {
		out = append(out, c18RaceScenario(sp))
	}
	return out
}

// ---- race mode: the same collisions with per-task private harness state ----

type c18RaceState struct{ ok bool }

// c18RaceScenario runs spec's tasks with nothing shared between them but
// the ramfs tree itself: each task owns a private copy of the handle table
// and records nothing, so that every race the detector reports is between
// accesses of the code under test.
func c18RaceScenario(sp c18Spec) *explore.Scenario {
	spec := sp
	return &explore.Scenario{
		Name:  "race/" + spec.Name,
		Cache: true,
		Body: func() any {
			st := &c18Conc{fs: ramfs.VerifNewServer(), handles: map[string]p9p.Dirent{}, files: map[string]p9p.File{}, setupOK: true}
			ctx := context.Background()
			for i := 0; i < 4; i++ {
				h, _ := st.fs.Attach(ctx, fmt.Sprintf("u%d", i), "", nil)
				st.handles[fmt.Sprintf("r%d", i)] = h
			}
			for _, o := range spec.Setup {
				st.exec(o)
			}
			for ti, ops := range spec.Tasks {
				ops := ops
				// private copy of the handle table for this task
				mine := &c18Conc{fs: st.fs, handles: map[string]p9p.Dirent{}, files: map[string]p9p.File{}}
				for k, v := range st.handles {
					mine.handles[k] = v
				}
				vsched.Go(fmt.Sprintf("session%d", ti), func() {
					for _, o := range ops {
						mine.exec(o)
					}
				})
			}
			return &c18RaceState{ok: true}
		},
		Check: func(state any, e *vsched.Exec) (string, []explore.Finding) {
			var fs []explore.Finding
			if len(e.Panics) > 0 {
				fs = append(fs, explore.Finding{Sig: "C18:race-mode:panic", Msg: panicList(e)})
			}
			return "ran", fs
		},
	}
}
