package props

import (
	"context"
	"fmt"
	"sort"
	"strings"
	"sync"
	"time"

	p9p "github.com/frobnitzem/go-p9p"
	"github.com/frobnitzem/go-p9p/zzverif/core"
	"github.com/frobnitzem/go-p9p/zzverif/explore"
	"github.com/frobnitzem/go-p9p/zzverif/refcodec"
	"github.com/frobnitzem/go-p9p/zzverif/vsched"
)

func init() {
	Registry["C12"] = c12
	ScenarioFns["C12"] = c12Scenarios
}

// srvAct is one step of the scripted (mis)behaving server.
type srvAct struct {
	Op  string // read | reply | raw | bytes | close | fail
	Arg int    // reply: index of the request read; raw: tag offset
	Msg p9p.Message
	Raw []byte
}

type c12Spec struct {
	Name      string
	Script    []srvAct
	Pending   int            // calls issued concurrently at the start (ids 0, 10, ...)
	Late      bool           // one more call issued after the first caller returned
	Msize     uint32         // server's msize answer
	Expect    map[int]string // id -> "own" | "err" | "any" (default any)
	FaultR    bool           // client-side read faults as deviations
	FaultW    bool           // client-side write faults as deviations
	CancelAll bool           // a task cancels the session context at an arbitrary moment
	Sync      bool
	Dev       int
	Big       bool // too large for preemption bounding in the quick tier
	CancelOne bool // caller 0's own context is cancelled by another task at an arbitrary moment
	TempR     bool // read faults include a temporary (non-timeout) error after which the connection works on
	ExpireOne bool // caller 0's own context reaches its deadline (context.DeadlineExceeded) at an arbitrary moment
	Expiry    bool // write faults include "the write deadline has passed"; caller 0 carries a context deadline
}

type c12State struct {
	*cliRun
	spec   *c12Spec
	failed bool
}

func c12Scenario(sp c12Spec) *explore.Scenario {
	spec := sp
	return &explore.Scenario{
		Name:  spec.Name,
		Cache: true,
		Body: func() any {
			st := &c12State{cliRun: newCliRun(spec.Sync), spec: &spec}
			if spec.Msize != 0 {
				st.serverMsize = spec.Msize
			}
			st.ncallers = spec.Pending
			if spec.Late {
				st.ncallers++
			}
			vsched.Go("server", func() {
				if !st.serverNegotiate() {
					st.serverEnd = "negotiation failed"
					return
				}
				var reqs []wireReq
				answered := map[int]bool{}
				closed := false
			script:
				for _, a := range spec.Script {
					switch a.Op {
					case "read":
						w, ok := st.serverRead()
						if !ok {
							break script
						}
						reqs = append(reqs, w)
					case "reply":
						if a.Arg < len(reqs) {
							st.serverReply(reqs[a.Arg])
							answered[a.Arg] = true
						}
					case "replyagain":
						if a.Arg < len(reqs) {
							w := reqs[a.Arg]
							m, _ := resultFor(p9p.MessageTread{Fid: p9p.Fid(w.ID)})
							if m == nil {
								m = p9p.MessageRerror{Ename: fmt.Sprintf("e%d", w.ID)}
							}
							st.srv.Write(refcodec.EncodeFrame(w.Tag, m))
						}
					case "raw": // a reply on the tag of request Arg (or on tag -Arg if negative) with an arbitrary message
						tag := p9p.Tag(-a.Arg)
						if a.Arg >= 0 && a.Arg < len(reqs) {
							tag = reqs[a.Arg].Tag
							answered[a.Arg] = true
							delete(st.unanswered, tag)
						}
						st.srv.Write(refcodec.EncodeFrame(tag, a.Msg))
					case "bytes":
						st.srv.Write(a.Raw)
					case "reply+bytes": // the proper reply to request Arg and more bytes in ONE write
						if a.Arg < len(reqs) {
							w := reqs[a.Arg]
							m, err := resultFor(p9p.MessageTread{Fid: p9p.Fid(w.ID)})
							if err != nil {
								m = p9p.MessageRerror{Ename: enameOf(err)}
							}
							delete(st.unanswered, w.Tag)
							answered[a.Arg] = true
							st.srv.Write(append(refcodec.EncodeFrame(w.Tag, m), a.Raw...))
						}
					case "close":
						st.srv.Close()
						closed = true
						break script
					}
				}
				st.failed = true
				// a conforming peer from here on: answer what is outstanding,
				// keep serving until every caller is done, then close
				if !closed {
					for i, w := range reqs {
						if !answered[i] {
							st.serverReply(w)
						}
					}
					for {
						w, ok := st.serverRead()
						if !ok {
							break
						}
						st.serverReply(w)
					}
					st.srv.Close()
				}
				st.serverEnd = "ok"
			})
			if !st.connect() {
				return st
			}
			st.cli.SetFaulty(spec.FaultR, spec.FaultW)
			st.cli.ExpiryFaults = spec.Expiry
			st.cli.TempReadFaults = spec.TempR
			if spec.CancelAll {
				vsched.Go("cancel-session", func() { st.cancel() })
			}
			firstDone := false
			for i := 0; i < spec.Pending; i++ {
				i := i
				res := &callResult{ID: i * 10}
				st.calls = append(st.calls, res)
				vsched.Go(fmt.Sprintf("caller%d", i), func() {
					ctx := context.Background()
					if spec.CancelOne && i == 0 {
						// this call's own context ends at an arbitrary moment: the
						// call returns, the others are not disturbed
						var cancel context.CancelFunc
						ctx, cancel = vsched.WithCancel(ctx)
						vsched.Go("cancel-call0", func() { cancel() })
					}
					if spec.ExpireOne && i == 0 {
						ec := newExpiringCtx(ctx)
						ctx = ec
						vsched.Go("expire-call0", func() { ec.expire() })
					}
					if spec.Expiry && i == 0 {
						// a per-call deadline (it never fires by itself: time
						// does not pass inside an execution; its expiry is the
						// connection's "deadline passed" answer)
						var cancel context.CancelFunc
						ctx, cancel = context.WithDeadline(ctx, time.Now().Add(time.Hour))
						defer cancel()
					}
					st.call(ctx, res)
					if i == 0 {
						firstDone = true
					}
					st.endCaller()
					vsched.Yield("caller.end", st.srvObj())
				})
			}
			if spec.Late {
				res := &callResult{ID: 90}
				st.calls = append(st.calls, res)
				vsched.Go("late", func() {
					vsched.WaitFor("late.start", st.srvObj(), func() bool { return firstDone })
					st.call(context.Background(), res)
					st.endCaller()
					vsched.Yield("caller.end", st.srvObj())
				})
			}
			return st
		},
		Check: c12Check,
	}
}

func c12Check(state any, e *vsched.Exec) (string, []explore.Finding) {
	st := state.(*c12State)
	var fs []explore.Finding
	bad := func(sig, format string, a ...any) {
		fs = append(fs, explore.Finding{Sig: "C12:" + sig, Msg: fmt.Sprintf(format, a...) + "\nlog: " + strings.Join(e.Log, " | ")})
	}
	if len(e.Panics) > 0 {
		bad("panic", "the client process would crash: %s\n%s", panicList(e), e.Panics[0].Stack)
	}
	if e.Horizon {
		bad("call-hangs:livelock", "the step horizon was reached: the client keeps retrying for ever (last moves: %s)", strings.Join(lastN(e.Trace, 6), " ; "))
		return "horizon", fs
	}
	if st.sessErr != nil {
		// a fault during negotiation: CSession itself returned an error, which is fine
		return "connect-failed", fs
	}
	var oc []string
	for _, res := range st.calls {
		want := st.spec.Expect[res.ID]
		switch {
		case !res.Returned:
			if len(e.Panics) == 0 {
				bad("call-hangs", "call %d never returned although the peer keeps draining or has closed; blocked: %s", res.ID, blockedList(e))
			}
			oc = append(oc, fmt.Sprintf("%d:stuck", res.ID))
		case ownResult(res):
			oc = append(oc, fmt.Sprintf("%d:own", res.ID))
			if want == "err" {
				bad("expected-error", "call %d returned its normal result although the peer's answer to it was invalid", res.ID)
			}
		case res.Err != "":
			oc = append(oc, fmt.Sprintf("%d:err", res.ID))
			if want == "own" && len(e.Panics) == 0 {
				bad("disturbed", "call %d returned error %q although the peer answered it correctly (another call's fault leaked into it)", res.ID, res.Err)
			}
		default:
			oc = append(oc, fmt.Sprintf("%d:WRONG", res.ID))
			bad("wrong-result", "call %d returned data=%q without error: neither its own reply nor an error", res.ID, res.Data)
		}
	}
	if st.spec.TempR && !st.cli.Faulted() {
		// nothing but (at most) a temporary read error happened: the
		// connection is fine and every call gets its own result
		for _, res := range st.calls {
			if res.Returned && res.Err != "" && !ownResult(res) {
				bad("disturbed:temporary-read-error", "call %d returned error %q although the connection only reported a temporary (non-timeout) read error and the peer answered everything", res.ID, res.Err)
			}
		}
	}
	if st.cli.StaleExpiry > 0 {
		bad("disturbed:stale-write-deadline", "a request was written under a write deadline that an earlier call had armed and that was not renewed: once that deadline has passed the request times out although its own call has no deadline and the connection is healthy (%d such write(s))", st.cli.StaleExpiry)
	}
	if len(fs) == 0 && st.serverEnd != "ok" && len(e.Panics) == 0 {
		bad("server-stuck", "scripted server did not finish (%q); blocked: %s", st.serverEnd, blockedList(e))
	}
	sort.Strings(oc)
	return strings.Join(oc, " "), fs
}

func c12Specs() []c12Spec {
	rd := func() srvAct { return srvAct{Op: "read"} }
	big := p9p.MessageRread{Data: make([]byte, 400)}
	return []c12Spec{
		{Name: "unknown-tag", Pending: 1, Late: true, Script: []srvAct{rd(), {Op: "raw", Arg: -777, Msg: p9p.MessageRread{Data: []byte("zz")}}, {Op: "reply", Arg: 0}},
			Expect: map[int]string{0: "own", 90: "own"}},
		{Name: "unknown-tag-idle", Pending: 1, Script: []srvAct{{Op: "raw", Arg: -5, Msg: p9p.MessageRclunk{}}, rd(), {Op: "reply", Arg: 0}},
			Expect: map[int]string{0: "own"}},
		{Name: "repeated-tag", Pending: 1, Late: true, Script: []srvAct{rd(), {Op: "reply", Arg: 0}, {Op: "replyagain", Arg: 0}},
			Expect: map[int]string{0: "own", 90: "own"}},
		{Name: "wrong-type", Pending: 2, Script: []srvAct{rd(), rd(), {Op: "raw", Arg: 0, Msg: p9p.MessageRstat{Stat: p9p.Dir{Name: "r0"}}}, {Op: "reply", Arg: 1}},
			Expect: map[int]string{}},
		{Name: "wrong-type-T", Pending: 1, Late: true, Script: []srvAct{rd(), {Op: "raw", Arg: 0, Msg: p9p.MessageTclunk{Fid: 1}}},
			Expect: map[int]string{0: "err", 90: "own"}},
		{Name: "garbage-type", Pending: 1, Late: true, Script: []srvAct{rd(), {Op: "bytes", Raw: []byte{7, 0, 0, 0, 250, 1, 0}}}},
		{Name: "short-body", Pending: 1, Late: true, Script: []srvAct{rd(), {Op: "bytes", Raw: []byte{9, 0, 0, 0, 117, 1, 0, 9, 9}}}},
		{Name: "length-prefix-2", Pending: 1, Late: true, Script: []srvAct{rd(), {Op: "bytes", Raw: []byte{2, 0, 0, 0}}}},
		{Name: "oversize", Pending: 1, Late: true, Msize: 256, Script: []srvAct{rd(), {Op: "raw", Arg: 0, Msg: big}}},
		{Name: "truncated-close", Pending: 1, Late: true, Script: []srvAct{rd(), {Op: "bytes", Raw: []byte{20, 0, 0, 0, 117}}, {Op: "close"}},
			Expect: map[int]string{0: "err", 90: "err"}},
		{Name: "close-pending", Pending: 2, Late: true, Script: []srvAct{rd(), {Op: "close"}},
			Expect: map[int]string{0: "err", 10: "err", 90: "err"}},
		{Name: "close-idle", Pending: 1, Script: []srvAct{{Op: "close"}}, Expect: map[int]string{0: "err"}},
		// the peer goes away while several requests are still unwritten (a
		// connection without buffering: one write blocked, the rest queued)
		{Name: "close-pending-sync", Pending: 3, Late: true, Sync: true, Big: true, Script: []srvAct{rd(), {Op: "close"}},
			Expect: map[int]string{90: "err"}},
		{Name: "close-unwritten-sync", Pending: 3, Sync: true, Big: true, Script: []srvAct{{Op: "close"}},
			Expect: map[int]string{0: "err", 10: "err", 20: "err"}},
		// one call's own context ends at any moment; the peer answers everything
		{Name: "call-cancel", Pending: 2, Late: true, CancelOne: true, Big: true, Expect: map[int]string{10: "own", 90: "own"}},
		{Name: "call-deadline", Pending: 2, Late: true, ExpireOne: true, Big: true, Expect: map[int]string{10: "own", 90: "own"}},
		{Name: "call-deadline-sync", Pending: 3, Late: true, ExpireOne: true, Sync: true, Big: true, Expect: map[int]string{10: "own", 20: "own", 90: "own"}},
		{Name: "call-cancel-sync", Pending: 3, Late: true, CancelOne: true, Sync: true, Big: true, Expect: map[int]string{10: "own", 20: "own", 90: "own"}},
		{Name: "read-faults", Pending: 2, Late: true, FaultR: true, Dev: 1, Big: true},
		{Name: "read-faults-1", Pending: 1, Late: true, FaultR: true, Dev: 1},
		{Name: "read-temporary-error", Pending: 1, Late: true, FaultR: true, TempR: true, Dev: 1},
		{Name: "write-faults", Pending: 2, Late: true, FaultW: true, Dev: 1},
		{Name: "write-faults-sync", Pending: 2, FaultW: true, Dev: 1, Sync: true},
		{Name: "write-deadline-expiry", Pending: 2, Late: true, FaultW: true, Expiry: true, Dev: 1},
		{Name: "coalesced/reply+prefix-0", Pending: 1, Late: true, Script: []srvAct{rd(), {Op: "reply+bytes", Arg: 0, Raw: []byte{0, 0, 0, 0}}}},
		{Name: "coalesced/reply+prefix-3", Pending: 1, Late: true, Script: []srvAct{rd(), {Op: "reply+bytes", Arg: 0, Raw: []byte{3, 0, 0, 0}}}},
		{Name: "coalesced/reply+garbage-type", Pending: 1, Late: true, Script: []srvAct{rd(), {Op: "reply+bytes", Arg: 0, Raw: []byte{7, 0, 0, 0, 250, 1, 0}}}},
		{Name: "coalesced/reply+short-body", Pending: 1, Late: true, Script: []srvAct{rd(), {Op: "reply+bytes", Arg: 0, Raw: []byte{9, 0, 0, 0, 117, 1, 0, 9, 9}}}},
		{Name: "coalesced/reply+unknown-tag", Pending: 1, Late: true, Script: []srvAct{rd(), {Op: "reply+bytes", Arg: 0, Raw: refcodec.EncodeFrame(999, p9p.MessageRclunk{})}}, Expect: map[int]string{0: "own", 90: "own"}},
		{Name: "session-cancel", Pending: 2, Late: true, CancelAll: true, Big: true},
		{Name: "session-cancel-1", Pending: 1, Late: true, CancelAll: true},
	}
}

func c12Scenarios() []*explore.Scenario {
	var out []*explore.Scenario
	for _, sp := range c12Specs() {
		out = append(out, c12Scenario(sp))
	}
	out = append(out, c12WrongTypeAll())
	return out
}

type c12WT struct {
	results map[string]string // method -> "err" | "ok"
	done    bool
	sessErr error
}

// c12WrongTypeAll: every session method is called once; the peer answers
// each request with a well-formed reply of another type. Every call must
// surface an error.
func c12WrongTypeAll() *explore.Scenario {
	wrong := func(m p9p.Message) p9p.Message {
		q := p9p.Qid{Path: 1}
		switch m.(type) {
		case p9p.MessageTauth:
			return p9p.MessageRattach{Qid: q}
		case p9p.MessageTattach:
			return p9p.MessageRauth{Qid: q}
		case p9p.MessageTwalk:
			return p9p.MessageRattach{Qid: q}
		case p9p.MessageTopen:
			return p9p.MessageRcreate{Qid: q, IOUnit: 1}
		case p9p.MessageTcreate:
			return p9p.MessageRopen{Qid: q, IOUnit: 1}
		case p9p.MessageTread:
			return p9p.MessageRwrite{Count: 3}
		case p9p.MessageTwrite:
			return p9p.MessageRread{Data: []byte("abc")}
		case p9p.MessageTclunk:
			return p9p.MessageRremove{}
		case p9p.MessageTremove:
			return p9p.MessageRclunk{}
		case p9p.MessageTstat:
			return p9p.MessageRwstat{}
		case p9p.MessageTwstat:
			return p9p.MessageRclunk{}
		}
		return p9p.MessageRflush{}
	}
	return &explore.Scenario{
		Name:  "wrong-type-every-method",
		Cache: true,
		Body: func() any {
			st := &c12WT{results: map[string]string{}}
			r := newCliRun(false)
			vsched.Go("server", func() {
				if !r.serverNegotiate() {
					return
				}
				for {
					f, err := r.srv.ReadFrameOr(func() bool { return st.done })
					if err != nil || f == nil {
						break
					}
					fc, _, derr := refcodec.Decode(f[4:])
					if derr != nil {
						break
					}
					r.srv.Write(refcodec.EncodeFrame(fc.Tag, wrong(fc.Message)))
				}
				r.srv.Close()
			})
			vsched.Go("client", func() {
				defer func() { st.done = true; vsched.Yield("client.end", r.srvObj()) }()
				if !r.connect() {
					st.sessErr = r.sessErr
					return
				}
				c := r.sess
				ctx := context.Background()
				rec := func(m string, err error) {
					if err != nil {
						st.results[m] = "err"
					} else {
						st.results[m] = "ok"
					}
				}
				_, err := c.Auth(ctx, 1, "u", "a")
				rec("auth", err)
				_, err = c.Attach(ctx, 1, p9p.NOFID, "u", "a")
				rec("attach", err)
				_, err = c.Walk(ctx, 1, 2, "a")
				rec("walk", err)
				_, _, err = c.Open(ctx, 1, p9p.OREAD)
				rec("open", err)
				_, _, err = c.Create(ctx, 1, "n", 0644, p9p.ORDWR)
				rec("create", err)
				_, err = c.Read(ctx, 1, make([]byte, 8), 0)
				rec("read", err)
				_, err = c.Write(ctx, 1, []byte("abc"), 0)
				rec("write", err)
				_, err = c.Stat(ctx, 1)
				rec("stat", err)
				rec("wstat", c.WStat(ctx, 1, p9p.Dir{}))
				rec("clunk", c.Clunk(ctx, 1))
				rec("remove", c.Remove(ctx, 1))
			})
			return st
		},
		Check: func(state any, e *vsched.Exec) (string, []explore.Finding) {
			st := state.(*c12WT)
			var fs []explore.Finding
			if len(e.Panics) > 0 {
				fs = append(fs, explore.Finding{Sig: "C12:panic", Msg: panicList(e)})
			}
			if !st.done {
				fs = append(fs, explore.Finding{Sig: "C12:call-hangs", Msg: "calls did not finish; blocked: " + blockedList(e)})
				return "stuck", fs
			}
			var ok []string
			for _, m := range []string{"auth", "attach", "walk", "open", "create", "read", "write", "stat", "wstat", "clunk", "remove"} {
				if st.results[m] == "ok" {
					ok = append(ok, m)
				}
			}
			if len(ok) > 0 {
				fs = append(fs, explore.Finding{Sig: "C12:wrong-type-accepted:" + strings.Join(ok, "+"), Msg: fmt.Sprintf("the peer answered every request with a well-formed reply of the wrong type, yet these calls reported success: %v", ok)})
			}
			return fmt.Sprintf("accepted=%d", len(ok)), fs
		},
	}
}

func c12(c *core.Ctx) {
	c.Budget(150*time.Second, 14*time.Minute)
	c.SetRule("scenarios: a real CSession with 1-2 pending calls and one call issued afterwards against a scripted peer that sends a reply with an unknown tag, the same reply twice, a reply of the wrong type, an undecodable / short / impossible-length / oversize frame, a truncated frame then close, or closes (also while several requests are still unwritten on a connection without buffering); one call's own context cancelled, or its deadline reached (context.DeadlineExceeded), at every point while the peer answers everything (the other calls must get their own results); plus client-side read or write errors placed at every Read/Write (1 deviation) and session-context cancellation at every point; all interleavings up to the bound; after its misbehaviour the peer keeps draining and answering, then closes. outcome = per-call classification (own / err / stuck)")
	c.Assume("'bounded time' is decided as quiescence: a call still parked when nothing is enabled, while the peer keeps draining or has closed, is a hang; I/O deadlines never fire inside an execution")
	var plans []Plan
	for _, sp := range c12Specs() {
		sc := c12Scenario(sp)
		if c.Quick() {
			plans = append(plans, Plan{Sc: sc, Delay: true, Max: 3, Dev: sp.Dev})
			if !sp.Big {
				plans = append(plans, Plan{Sc: sc, Max: 1, Dev: sp.Dev})
			}
		} else {
			plans = append(plans, Plan{Sc: sc, Delay: true, Max: 5, Dev: sp.Dev}, Plan{Sc: sc, Max: 2, Dev: sp.Dev})
		}
	}
	wt := c12WrongTypeAll()
	plans = append(plans, Plan{Sc: wt, Delay: true, Max: 2})
	runPlans(c, plans)
}

// expiringCtx is a context with a deadline that is reached when the
// harness says so (time does not pass by itself inside an execution): Err
// becomes context.DeadlineExceeded and Done is closed at a scheduling point.
type expiringCtx struct {
	context.Context
	done chan struct{}
	mu   sync.Mutex
	err  error
}

func newExpiringCtx(parent context.Context) *expiringCtx {
	return &expiringCtx{Context: parent, done: make(chan struct{})}
}

func (c *expiringCtx) Deadline() (time.Time, bool) { return time.Now().Add(time.Hour), true }
func (c *expiringCtx) Done() <-chan struct{}       { return c.done }
func (c *expiringCtx) Err() error {
	c.mu.Lock()
	defer c.mu.Unlock()
	return c.err
}
func (c *expiringCtx) expire() {
	vsched.Yield("ctx.expire", vsched.CtxObj)
	c.mu.Lock()
	c.err = context.DeadlineExceeded
	c.mu.Unlock()
	vsched.CloseChan("ctx.expire", c.done)
}

func lastN(s []string, n int) []string {
	if len(s) > n {
		return s[len(s)-n:]
	}
	return s
}
