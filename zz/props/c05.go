package props

import (
	"context"
	"fmt"
	"sort"
	"strings"
	"sync"
	"time"

	p9p "github.com/frobnitzem/go-p9p"
	"github.com/frobnitzem/go-p9p/zzverif/core"
	"github.com/frobnitzem/go-p9p/zzverif/explore"
	"github.com/frobnitzem/go-p9p/zzverif/refcodec"
	"github.com/frobnitzem/go-p9p/zzverif/vconn"
	"github.com/frobnitzem/go-p9p/zzverif/vsched"
)

func init() {
	Registry["C05"] = c05
	ScenarioFns["C05"] = c05Scenarios
}

type callResult struct {
	ID       int
	Returned bool
	Data     string
	Err      string
	Abandon  bool
}

type wireReq struct {
	Tag p9p.Tag
	ID  int
}

// cliRun is the per-execution state of a client-session scenario: the real
// CSession on one end of a vconn, a scripted server on the other.
type cliRun struct {
	cli, srv    *vconn.Conn
	ctx         context.Context
	cancel      context.CancelFunc
	sess        p9p.Session
	sessErr     error
	calls       []*callResult
	callersEnd  int // guarded by mu
	mu          sync.Mutex
	ncallers    int
	wire        []wireReq
	unanswered  map[p9p.Tag]int
	tagErrs     []string
	serverEnd   string
	serverMsize uint32
}

func newCliRun(sync bool) *cliRun {
	r := &cliRun{unanswered: map[p9p.Tag]int{}, serverMsize: 65536}
	// the scripted server is single-threaded: its own writes never block
	// (a peer that stops reading while it writes is not a conforming peer)
	r.cli, r.srv = vconn.PipeDirs(sync, false)
	r.cli.Name, r.srv.Name = "cli", "srv"
	r.ctx, r.cancel = vsched.WithCancel(context.Background())
	return r
}

// serverNegotiate answers the client's Tversion.
func (r *cliRun) serverNegotiate() bool {
	f, err := r.srv.ReadFrame()
	if err != nil {
		return false
	}
	fc, _, derr := refcodec.Decode(f[4:])
	if derr != nil {
		return false
	}
	tv, ok := fc.Message.(p9p.MessageTversion)
	if !ok {
		return false
	}
	ms := r.serverMsize
	if tv.MSize < ms {
		ms = tv.MSize
	}
	r.srv.Write(refcodec.EncodeFrame(p9p.NOTAG, p9p.MessageRversion{MSize: ms, Version: "9P2000"}))
	return true
}

// serverRead reads the next request, recording tag discipline. It returns
// false when every caller has returned and nothing is left to read.
func (r *cliRun) serverRead() (wireReq, bool) {
	f, err := r.srv.ReadFrameOr(r.allEndedNR)
	if err != nil || f == nil {
		return wireReq{}, false
	}
	fc, _, derr := refcodec.Decode(f[4:])
	if derr != nil {
		r.tagErrs = append(r.tagErrs, "undecodable request: "+derr.Error())
		return wireReq{}, false
	}
	w := wireReq{Tag: fc.Tag, ID: reqID(fc.Message)}
	if fc.Tag == p9p.NOTAG {
		r.tagErrs = append(r.tagErrs, fmt.Sprintf("request id=%d sent with the reserved NOTAG", w.ID))
	}
	if prev, busy := r.unanswered[fc.Tag]; busy {
		r.tagErrs = append(r.tagErrs, fmt.Sprintf("request id=%d sent with tag %d which is still awaiting the reply to request id=%d", w.ID, fc.Tag, prev))
	}
	r.unanswered[fc.Tag] = w.ID
	r.wire = append(r.wire, w)
	return w, true
}

func (r *cliRun) serverReply(w wireReq) {
	m, err := resultFor(p9p.MessageTread{Fid: p9p.Fid(w.ID)})
	if err != nil {
		m = p9p.MessageRerror{Ename: err.Error()}
	}
	delete(r.unanswered, w.Tag)
	r.srv.Write(refcodec.EncodeFrame(w.Tag, m))
}

func (r *cliRun) connect() bool {
	s, err := p9p.CSession(r.ctx, r.cli)
	r.sess, r.sessErr = s, err
	return err == nil
}

// call performs one identifiable Read call.
func (r *cliRun) call(ctx context.Context, res *callResult) {
	buf := make([]byte, 16)
	n, err := r.sess.Read(ctx, p9p.Fid(res.ID), buf, int64(res.ID)<<20)
	res.Returned = true
	res.Data = string(buf[:n])
	if err != nil {
		res.Err = err.Error()
	}
	if !vsched.RaceMode {
		vsched.Logf("call %d returned %q %q", res.ID, res.Data, res.Err)
	}
}

func ownResult(res *callResult) bool {
	if res.ID%2 == 0 {
		return res.Data == fmt.Sprintf("r%d", res.ID) && res.Err == ""
	}
	return res.Data == "" && strings.Contains(res.Err, fmt.Sprintf("e%d", res.ID))
}

// c05Scenario: ncallers tasks issue `per` calls each; caller 0's first call
// is abandoned (its context cancelled at an arbitrary moment) when abandon
// is set. The server reads requests and answers outstanding ones in every
// order.
func c05Scenario(name string, ncallers, per int, abandon, sync bool) *explore.Scenario {
	return &explore.Scenario{
		Name:  name,
		Cache: true,
		Body: func() any {
			st := newCliRun(sync)
			st.ncallers = ncallers
			vsched.Go("server", func() {
				if !st.serverNegotiate() {
					st.serverEnd = "negotiation failed"
					return
				}
				l := &srvLoop{r: st.cliRunPtr()}
				for {
					// idle until there is something to do: a request to
					// read, a reply to give, or nothing will come any more
					vsched.WaitFor("server.idle", st.srvObj(), l.idle)
					opts := len(l.out)
					if st.srv.FrameReady() {
						opts++
					}
					if opts == 0 {
						break
					}
					k := vsched.Choose("server.next", opts, false)
					if k < len(l.out) {
						st.serverReply(l.out[k])
						l.out = append(l.out[:k], l.out[k+1:]...)
						continue
					}
					w, ok := st.serverRead()
					if !ok {
						break
					}
					l.out = append(l.out, w)
				}
				st.srv.Close()
				st.serverEnd = "ok"
			})
			if !st.connect() {
				return st
			}
			for i := 0; i < ncallers; i++ {
				i := i
				var results []*callResult
				for j := 0; j < per; j++ {
					res := &callResult{ID: i*10 + j*2 + i%2}
					results = append(results, res)
					st.calls = append(st.calls, res)
				}
				cctx, ccancel := context.Background(), func() {}
				if abandon && i == 0 {
					results[0].Abandon = true
					cctx, ccancel = vsched.WithCancel(context.Background())
					vsched.Go("canceller", func() { ccancel() })
				}
				vsched.Go(fmt.Sprintf("caller%d", i), func() {
					for j, res := range results {
						ctx := context.Background()
						if j == 0 {
							ctx = cctx
						}
						st.call(ctx, res)
					}
					st.endCaller()
					vsched.Yield("caller.end", st.srvObj())
				})
			}
			return st
		},
		Check: c05Check,
	}
}

func (r *cliRun) srvObj() uintptr    { return r.srv.ReadObj() }
func (r *cliRun) cliRunPtr() *cliRun { return r }

// endCaller / allEnded: the only harness state shared between caller tasks
// and the server task, guarded by a real mutex so that race mode sees no
// harness race.
func (r *cliRun) endCaller() {
	r.mu.Lock()
	r.callersEnd++
	r.mu.Unlock()
}
func (r *cliRun) allEnded() bool {
	r.mu.Lock()
	defer r.mu.Unlock()
	return r.callersEnd == r.ncallers
}

// allEndedNR is for conditions evaluated by the scheduler (no lock, not
// seen by the race detector).
//
//go:norace
func (r *cliRun) allEndedNR() bool { return r.callersEnd == r.ncallers }

// srvLoop holds the scripted server's pending replies so that its idle
// condition can be a //go:norace method.
type srvLoop struct {
	r   *cliRun
	out []wireReq
}

//go:norace
func (l *srvLoop) idle() bool {
	return l.r.srv.FrameReadyNR() || len(l.out) > 0 || l.r.callersEnd == l.r.ncallers
}

func c05Check(state any, e *vsched.Exec) (string, []explore.Finding) {
	st := state.(*cliRun)
	var fs []explore.Finding
	bad := func(sig, format string, a ...any) {
		fs = append(fs, explore.Finding{Sig: "C05:" + sig, Msg: fmt.Sprintf(format, a...) + "\nlog: " + strings.Join(e.Log, " | ")})
	}
	if len(e.Panics) > 0 {
		bad("panic", "a task panicked: %s\n%s", panicList(e), e.Panics[0].Stack)
	}
	if e.Horizon {
		return "horizon", fs
	}
	if st.sessErr != nil {
		bad("connect", "CSession failed: %v", st.sessErr)
		return "connect-failed", fs
	}
	var oc []string
	for _, res := range st.calls {
		switch {
		case !res.Returned:
			bad("call-stuck", "call %d never returned; blocked: %s", res.ID, blockedList(e))
			oc = append(oc, fmt.Sprintf("%d:stuck", res.ID))
		case ownResult(res):
			oc = append(oc, fmt.Sprintf("%d:own", res.ID))
		case res.Abandon && strings.Contains(res.Err, "context canceled"):
			oc = append(oc, fmt.Sprintf("%d:abandoned", res.ID))
		default:
			bad("wrong-reply", "call %d returned data=%q err=%q, which is not the reply to its own request", res.ID, res.Data, res.Err)
			oc = append(oc, fmt.Sprintf("%d:WRONG", res.ID))
		}
	}
	for _, t := range st.tagErrs {
		bad("tag", "%s", t)
	}
	if len(fs) == 0 && st.serverEnd != "ok" {
		bad("server-stuck", "scripted server did not finish (%q); blocked: %s", st.serverEnd, blockedList(e))
	}
	var w []string
	for _, x := range st.wire {
		w = append(w, fmt.Sprintf("%d", x.ID))
	}
	sort.Strings(oc)
	return strings.Join(oc, " ") + " wire=" + strings.Join(w, ","), fs
}

func c05Scenarios() []*explore.Scenario {
	return []*explore.Scenario{
		c05Scenario("2x1", 2, 1, false, false),
		c05Scenario("2x1-abandon", 2, 1, true, false),
		c05Scenario("2x2-abandon", 2, 2, true, false),
		c05Scenario("3x1", 3, 1, false, false),
		c05Scenario("3x1-abandon", 3, 1, true, false),
		c05Scenario("2x2", 2, 2, false, false),
		c05Scenario("2x1-sync", 2, 1, false, true),
		c05Scenario("2x2-abandon-sync", 2, 2, true, true),
		c05BurstScenario(3),
		c05BurstScenario(80),
		c05WrapScenario(),
	}
}

// c05BurstScenario: call A is read by the peer, which then stops reading; n
// more callers issue calls that cannot be written (connection without
// buffering: one write blocked, the others queued behind it); the peer answers
// A before it reads on. A must return although nothing else has been read;
// afterwards the peer reads and answers everything and every call returns.
func c05BurstScenario(n int) *explore.Scenario {
	return &explore.Scenario{
		Name:     fmt.Sprintf("burst-%d/reply-while-unwritten", n),
		Cache:    true,
		MaxSteps: 400000,
		Body: func() any {
			st := newCliRun(true)
			st.ncallers = n + 1
			b := &burst{r: st, n: n}
			vsched.Go("server", func() {
				if !st.serverNegotiate() {
					st.serverEnd = "negotiation failed"
					return
				}
				a, ok := st.serverRead()
				if !ok {
					st.serverEnd = "no first request"
					return
				}
				// read nothing until every other caller is on its way
				vsched.WaitFor("server.hold", st.srvObj(), b.allEntered)
				st.serverReply(a)
				vsched.WaitFor("server.awaitA", st.srvObj(), b.aReturned)
				for {
					w, ok := st.serverRead()
					if !ok {
						break
					}
					st.serverReply(w)
				}
				st.srv.Close()
				st.serverEnd = "ok"
			})
			if !st.connect() {
				return st
			}
			for i := 0; i <= n; i++ {
				res := &callResult{ID: i * 2}
				st.calls = append(st.calls, res)
				if i == 0 {
					b.a = res
				}
				first := i == 0
				vsched.Go(fmt.Sprintf("caller%d", i), func() {
					if !first {
						// the burst starts once the peer holds A
						vsched.WaitFor("burst.start", st.srvObj(), b.aOnWire)
						st.mu.Lock()
						b.entered++
						st.mu.Unlock()
					}
					st.call(context.Background(), res)
					st.endCaller()
					vsched.Yield("caller.end", st.srvObj())
				})
			}
			return st
		},
		Check: c05Check,
	}
}

type burst struct {
	r       *cliRun
	n       int
	entered int
	a       *callResult
}

//go:norace
func (b *burst) allEntered() bool { return b.entered == b.n }

//go:norace
func (b *burst) aReturned() bool { return b.a != nil && b.a.Returned }

//go:norace
func (b *burst) aOnWire() bool { return len(b.r.wire) > 0 }

// c05WrapScenario: one call that is never answered, then 66000 sequential
// answered calls: the tag counter wraps around while a tag stays outstanding.
func c05WrapScenario() *explore.Scenario {
	const N = 66000
	return &explore.Scenario{
		Name:     "tagwrap",
		MaxSteps: 40 * N,
		Body: func() any {
			st := newCliRun(false)
			st.ncallers = 1
			vsched.Go("server", func() {
				if !st.serverNegotiate() {
					return
				}
				unanswered := 0
				for {
					w, ok := st.serverRead()
					if !ok {
						break
					}
					if unanswered < 2 {
						unanswered++ // the first two requests are never answered
						continue
					}
					st.serverReply(w)
				}
				st.srv.Close()
				st.serverEnd = "ok"
			})
			if !st.connect() {
				return st
			}
			hung := &callResult{ID: 2, Abandon: true}
			hctx, hcancel := context.WithCancel(context.Background())
			vsched.Go("hung", func() { st.call(hctx, hung) })
			// a second never-answered call, which its caller abandons as soon
			// as the request is on the wire: its tag stays unanswered too
			gone := &callResult{ID: 4, Abandon: true}
			gctx, gcancel := vsched.WithCancel(context.Background())
			vsched.Go("abandoned", func() {
				vsched.WaitFor("first-on-wire", st.srvObj(), func() bool { return len(st.wire) >= 1 })
				st.call(gctx, gone)
			})
			vsched.Go("caller", func() {
				// let both never-answered requests reach the wire first
				vsched.WaitFor("two-on-wire", st.srvObj(), func() bool { return len(st.wire) >= 2 })
				gcancel()
				vsched.WaitFor("abandoned-returned", st.srvObj(), func() bool { return gone.Returned })
				bad := 0
				for i := 0; i < N; i++ {
					res := &callResult{ID: 6 + 2*(i%1000)}
					st.call(context.Background(), res)
					if !ownResult(res) {
						bad++
						if bad == 1 {
							st.calls = append(st.calls, res)
						}
					}
				}
				hcancel()
				vsched.WaitFor("hung-returned", 0, func() bool { return hung.Returned })
				st.endCaller()
				vsched.Yield("caller.end", st.srvObj())
			})
			return st
		},
		Check: func(state any, e *vsched.Exec) (string, []explore.Finding) {
			st := state.(*cliRun)
			o, fs := c05Check(state, e)
			if len(st.wire) < N {
				fs = append(fs, explore.Finding{Sig: "C05:wrap-short", Msg: fmt.Sprintf("only %d requests reached the wire: %s", len(st.wire), o)})
			}
			return fmt.Sprintf("requests=%d tagerrs=%d", len(st.wire), len(st.tagErrs)), fs
		},
	}
}

func c05(c *core.Ctx) {
	c.Budget(100*time.Second, 14*time.Minute)
	c.SetRule("scenarios: 2-3 callers x 1-2 identifiable calls on a real CSession, one call optionally abandoned (its context cancelled at any point); burst scenarios: the peer reads one request, holds off reading while 3 / 80 further callers pile up behind a blocked write on a connection without buffering, answers the first call before reading on (it must return), then serves the rest; scripted server that at each step reads the next request or answers any outstanding one (all reply permutations x all interleavings), sync and async connection; plus allocateTag checked as a function over all 65536 hints x occupancy families, plus one 66000-call execution with a never-answered tag (wrap). outcome = per-call classification + wire order")
	c.Assume("scheduling points at channel, select, mutex, once, sync.Map, context-cancel and conn operations; sequentially consistent interleavings only", "the race-freedom clause is covered by the race-mode run when available (see coverage.race_mode)")
	// (i) the allocator as a function
	c05Allocator(c)
	// (ii) interleavings
	scs := c05Scenarios()
	var inter []*explore.Scenario
	var big *explore.Scenario
	for _, sc := range scs[:len(scs)-1] {
		if strings.HasPrefix(sc.Name, "burst-80") {
			big = sc // 85 tasks: the default schedule and its neighbours only
			continue
		}
		inter = append(inter, sc)
	}
	var plans []Plan
	if c.Quick() {
		plans = both(inter, -1, 3, 0)
		for _, sc := range inter {
			if strings.HasPrefix(sc.Name, "2x1") {
				plans = append(plans, Plan{Sc: sc, Max: 1})
			}
		}
		plans = append(plans, Plan{Sc: big, Delay: true, Max: 1})
	} else {
		plans = both(inter, 2, 5, 0)
		plans = append(plans, Plan{Sc: big, Delay: true, Max: 2})
	}
	runPlans(c, plans)
	// race mode: the same harness bodies in race-detector workers
	rb := 2
	if !c.Quick() {
		rb = 4
	}
	var raceScs []*explore.Scenario
	for _, sc := range inter {
		if sc.Name == "2x1" || sc.Name == "2x1-abandon" || sc.Name == "2x2-abandon" || (!c.Quick() && (sc.Name == "3x1" || sc.Name == "2x2")) {
			raceScs = append(raceScs, explore.WithDelay(sc)) // delay bounding: the race build is slow
		}
	}
	runRaceMode(c, raceScs, rb)
	// (iii) the wrap execution (default schedule only)
	wrap := scs[len(scs)-1]
	e, outcome, findings := explore.RunDefault(wrap)
	c.Count(1, 1, int64(e.Steps), 1)
	c.Outcome("tagwrap "+outcome, 1)
	for _, f := range findings {
		c.Violation(f.Sig+"@tagwrap", f.Msg, map[string]any{"scenario": "tagwrap", "choices": []int{}})
	}
}

// c05Allocator checks VerifAllocateTag for every hint against families of
// occupancy maps: the result is free, is not NOTAG, and is the first free
// tag after the hint in cyclic order (skipping NOTAG).
func c05Allocator(c *core.Ctx) {
	type fam struct {
		name  string
		taken func(h int) []p9p.Tag
	}
	run := func(start, n int) []p9p.Tag { // n tags following start, cyclic over 0..0xFFFE
		var out []p9p.Tag
		t := start
		for i := 0; i < n; i++ {
			t++
			if t >= 0xFFFF {
				t = 0
			}
			out = append(out, p9p.Tag(t))
		}
		return out
	}
	fams := []fam{
		{"empty", func(h int) []p9p.Tag { return nil }},
		{"next1", func(h int) []p9p.Tag { return run(h, 1) }},
		{"next3", func(h int) []p9p.Tag { return run(h, 3) }},
		{"next40", func(h int) []p9p.Tag { return run(h, 40) }},
		{"far", func(h int) []p9p.Tag { return []p9p.Tag{p9p.Tag((h + 1000) % 0xFFFF), 0, 0xFFFE} }},
	}
	hints := 0x10000
	step := 1
	if c.Quick() {
		step = 1
	}
	var n int64
	for _, f := range fams {
		for h := 0; h < hints; h += step {
			if c.Expired() {
				c.NotExhaustive("allocator sweep cut by the time budget")
				return
			}
			taken := f.taken(h % 0xFFFF)
			got, err := p9p.VerifAllocateTag(taken, p9p.Tag(h))
			n++
			busy := map[p9p.Tag]bool{}
			for _, t := range taken {
				busy[t] = true
			}
			want := h
			for {
				want++
				if want >= 0xFFFF {
					want = 0
				}
				if !busy[p9p.Tag(want)] {
					break
				}
			}
			if err != nil || got == p9p.NOTAG || busy[got] || int(got) != want {
				c.Violation("C05:allocator:"+f.name, fmt.Sprintf("allocateTag(hint=%d, taken=%v) = %d, %v; want %d (free, not NOTAG, first free after the hint)", h, taken, got, err, want),
					map[string]any{"hint": h, "taken": taken, "family": f.name})
				break
			}
		}
		c.Outcome("allocator/"+f.name, 1)
	}
	// all but one tag taken
	full := make([]p9p.Tag, 0, 0xFFFF)
	for t := 0; t < 0xFFFF; t++ {
		if t != 777 {
			full = append(full, p9p.Tag(t))
		}
	}
	for _, h := range []int{0, 776, 777, 778, 0xFFFE, 0xFFFF} {
		got, err := p9p.VerifAllocateTag(full, p9p.Tag(h))
		n++
		if err != nil || got != 777 {
			c.Violation("C05:allocator:allbutone", fmt.Sprintf("allocateTag(hint=%d) with only tag 777 free = %d, %v", h, got, err), map[string]any{"hint": h})
		}
	}
	if _, err := p9p.VerifAllocateTag(append(full, 777), 5); err == nil {
		c.Violation("C05:allocator:depleted", "allocateTag succeeds although all 65535 tags are taken", nil)
	}
	c.Count(n, 0, 0, 0)
	c.Set("allocator_cases", n)
}
