package props

import (
	"context"
	"encoding/binary"
	"fmt"
	"io"
	"net"
	"runtime"
	"sync"
	"time"

	p9p "github.com/frobnitzem/go-p9p"
	"github.com/frobnitzem/go-p9p/zzverif/core"
	"github.com/frobnitzem/go-p9p/zzverif/refcodec"
)

func init() { Registry["C03"] = c03 }

// chunkConn serves a fixed byte stream; Reads stop at the given cut
// offsets (or after every byte), then report EOF.
type chunkConn struct {
	data    []byte
	pos     int
	cuts    []int
	oneByte bool
	// eofWithData: the Read that delivers the last bytes of the stream
	// returns them together with io.EOF (an io.Reader may do that)
	eofWithData bool
}

func (c *chunkConn) Read(p []byte) (int, error) {
	if c.pos >= len(c.data) {
		return 0, io.EOF
	}
	n := len(c.data) - c.pos
	if n > len(p) {
		n = len(p)
	}
	if c.oneByte {
		n = 1
	}
	for _, cut := range c.cuts {
		if cut > c.pos && cut-c.pos < n {
			n = cut - c.pos
		}
	}
	copy(p, c.data[c.pos:c.pos+n])
	c.pos += n
	if c.eofWithData && c.pos == len(c.data) {
		return n, io.EOF
	}
	return n, nil
}
func (c *chunkConn) Write(p []byte) (int, error)        { return len(p), nil }
func (c *chunkConn) Close() error                       { return nil }
func (c *chunkConn) LocalAddr() net.Addr                { return nil }
func (c *chunkConn) RemoteAddr() net.Addr               { return nil }
func (c *chunkConn) SetDeadline(t time.Time) error      { return nil }
func (c *chunkConn) SetReadDeadline(t time.Time) error  { return nil }
func (c *chunkConn) SetWriteDeadline(t time.Time) error { return nil }

type c03Frame struct {
	Name  string
	Bytes []byte
	Class string
}

// refOutcome is the reference verdict for one frame given msize: it depends
// on the frame's own bytes and msize only.
type refOutcome struct {
	Kind     string // msg | overflow | error | impossible
	Msg      *p9p.Fcall
	Overflow int
}

func c03Ref(f []byte, m int) refOutcome {
	if len(f) < 4 {
		return refOutcome{Kind: "impossible"}
	}
	size := int(binary.LittleEndian.Uint32(f))
	if size < 4 {
		return refOutcome{Kind: "impossible"}
	}
	if size > m {
		return refOutcome{Kind: "overflow", Overflow: size - m}
	}
	fc, _, err := refcodec.Decode(f[4:size])
	if err != nil {
		return refOutcome{Kind: "error"}
	}
	if tr, ok := fc.Message.(p9p.MessageTread); ok {
		if uint64(tr.Count)+11 > uint64(m) {
			fc.Message = p9p.MessageTread{Fid: tr.Fid, Offset: tr.Offset, Count: 0}
			return refOutcome{Kind: "msg-tread-lowered", Msg: fc}
		}
	}
	return refOutcome{Kind: "msg", Msg: fc}
}

func c03Alphabet(m int, rich bool) []c03Frame {
	var out []c03Frame
	add := func(name, class string, b []byte) { out = append(out, c03Frame{name, b, class}) }
	fseeds, _ := c04Seeds()
	for i, s := range fseeds {
		if !rich && i%3 != 0 && i != 9 && i != 19 {
			continue
		}
		add(fmt.Sprintf("valid#%d(type %d,%dB)", i, s[0], len(s)+4), "valid", refcodec.Frame(s))
	}
	add("Tread count=msize", "tread", refcodec.EncodeFrame(5, p9p.MessageTread{Fid: 0x11223344, Offset: 9, Count: uint32(m)}))
	add("Tread count=msize-11", "tread", refcodec.EncodeFrame(5, p9p.MessageTread{Fid: 1, Offset: 9, Count: uint32(m - 11)}))
	add("Tread count=msize-10", "tread", refcodec.EncodeFrame(5, p9p.MessageTread{Fid: 1, Offset: 9, Count: uint32(m - 10)}))
	add("Tread count=2^32-1", "tread", refcodec.EncodeFrame(5, p9p.MessageTread{Fid: 1, Offset: 9, Count: 0xFFFFFFFF}))
	ks := []int{1, 2, 3, 4, 5, 100, 70000}
	if !rich {
		ks = []int{1, 4, 5, 100}
	}
	for _, k := range ks {
		// an Rread whose frame is exactly m+k bytes
		d := m + k - 11
		add(fmt.Sprintf("oversize+%d", k), "oversize", refcodec.EncodeFrame(6, p9p.MessageRread{Data: pat(d)}))
	}
	add("exactly-msize", "valid", refcodec.EncodeFrame(6, p9p.MessageRread{Data: pat(m - 11)}))
	if m >= 256 {
		// lists longer than one walk may carry, with a body that really holds them
		q := p9p.Qid{Type: 0x80, Version: 3, Path: 4}
		qs := make([]p9p.Qid, 17)
		ns := make([]string, 17)
		for i := range qs {
			qs[i] = q
			ns[i] = string(rune('a' + i))
		}
		add("Rwalk-17-qids", "valid", refcodec.EncodeFrame(7, p9p.MessageRwalk{Qids: qs}))
		add("Twalk-17-names", "valid", refcodec.EncodeFrame(7, p9p.MessageTwalk{Fid: 1, Newfid: 2, Wnames: ns}))
	}
	add("unknown-type-250", "undecodable", refcodec.Frame([]byte{250, 1, 0, 9, 9}))
	add("Terror-106", "undecodable", refcodec.Frame([]byte{106, 1, 0, 1, 0, 'x'}))
	// bodies shorter than their message needs, at every cut
	full := [][]byte{
		fseeds[19],                          // Tclunk
		fseeds[9],                           // Twalk
		fseeds[6],                           // Rerror
		{120, 7, 0, 0x44, 0x33, 0x22, 0x11}, // Tclunk fid 0x11223344
	}
	for fi, b := range full {
		for cut := 0; cut < len(b); cut++ {
			if !rich && cut%2 == 1 && cut > 3 {
				continue
			}
			add(fmt.Sprintf("short-body#%d@%d", fi, cut), "short-body", refcodec.Frame(b[:cut]))
		}
	}
	for p := 0; p <= 3; p++ {
		add(fmt.Sprintf("length-prefix-%d", p), "impossible", []byte{byte(p), 0, 0, 0})
	}
	return out
}

type c03Case struct {
	m      int
	frames []c03Frame
	cuts   []int
	one    bool
	endAt  int  // >= 0: the stream ends after this many bytes of the last frame
	eofDat bool // the last bytes arrive together with io.EOF
}

// c03Run executes one case and returns a violation, if any.
func c03Run(cs c03Case, viaSet bool) (cls, sig, text string) {
	var stream []byte
	for _, f := range cs.frames {
		stream = append(stream, f.Bytes...)
	}
	if cs.endAt >= 0 {
		last := cs.frames[len(cs.frames)-1]
		stream = stream[:len(stream)-len(last.Bytes)+cs.endAt]
	}
	conn := &chunkConn{data: stream, cuts: cs.cuts, oneByte: cs.one, eofWithData: cs.eofDat}
	var ch p9p.Channel
	if viaSet {
		ch = p9p.NewChannel(conn, p9p.DefaultMSize)
		ch.SetMSize(cs.m)
	} else {
		ch = p9p.NewChannel(conn, cs.m)
	}
	desc := func(i int) string {
		var names []string
		for _, f := range cs.frames {
			names = append(names, f.Name)
		}
		return fmt.Sprintf("msize %d, frames %q, frame %d, cuts %v onebyte=%v end=%d eof-with-data=%v", cs.m, names, i, cs.cuts, cs.one, cs.endAt, cs.eofDat)
	}
	cls = ""
	type keptMsg struct {
		i    int
		got  p9p.Fcall
		want *p9p.Fcall
	}
	var kept []keptMsg
	for i, f := range cs.frames {
		ref := c03Ref(f.Bytes, cs.m)
		truncated := cs.endAt >= 0 && i == len(cs.frames)-1
		var fc p9p.Fcall
		var err error
		if p := catch(func() { err = ch.ReadFcall(context.Background(), &fc) }); p != "" {
			return "panic", "panic:" + f.Class, fmt.Sprintf("ReadFcall panicked: %s (%s)", p, desc(i))
		}
		if truncated {
			if cs.endAt < len(f.Bytes) && ref.Kind != "impossible" {
				size := int(binary.LittleEndian.Uint32(append(append([]byte{}, f.Bytes...), 0, 0, 0, 0)))
				if cs.endAt < 4 || cs.endAt < size {
					if err == nil {
						return "x", "midframe-end-accepted", fmt.Sprintf("the stream ended %d bytes into a frame but ReadFcall returned %s (%s)", cs.endAt, Brief(fc), desc(i))
					}
					return cls + "E", "", ""
				}
			}
			if ref.Kind == "impossible" {
				if err == nil {
					return "x", "impossible-length-accepted", fmt.Sprintf("impossible length prefix accepted (%s)", desc(i))
				}
				return cls + "I", "", ""
			}
		}
		switch ref.Kind {
		case "impossible":
			if err == nil {
				return "x", "impossible-length-accepted", fmt.Sprintf("a frame with length prefix < 4 was accepted as %s (%s)", Brief(fc), desc(i))
			}
			return cls + "I", "", "" // nothing is asserted after an impossible prefix
		case "overflow":
			if err == nil {
				return "x", "overflow-accepted", fmt.Sprintf("a frame %d bytes longer than msize was accepted as %s (%s)", ref.Overflow, Brief(fc), desc(i))
			}
			if ov := p9p.Overflow(err); ov != ref.Overflow {
				return "x", "overflow-amount", fmt.Sprintf("frame exceeds msize by %d but the error %q reports %d (%s)", ref.Overflow, err, ov, desc(i))
			}
			cls += "O"
		case "error":
			if err == nil {
				return "x", "undecodable-accepted:" + f.Class, fmt.Sprintf("a frame whose body is not a complete message (% x) was accepted as %s (%s)", head(f.Bytes, 24), Brief(fc), desc(i))
			}
			cls += "e"
		default:
			if err != nil {
				return "x", "wellformed-rejected:" + f.Class, fmt.Sprintf("well-formed frame %s rejected: %v (%s)", f.Name, err, desc(i))
			}
			if ref.Kind == "msg-tread-lowered" {
				got, ok := fc.Message.(p9p.MessageTread)
				want := ref.Msg.Message.(p9p.MessageTread)
				orig, _, _ := refcodec.Decode(f.Bytes[4:])
				oc := orig.Message.(p9p.MessageTread).Count
				if !ok || got.Fid != want.Fid || got.Offset != want.Offset || fc.Tag != ref.Msg.Tag {
					return "x", "tread-altered", fmt.Sprintf("inbound Tread delivered as %s (%s)", Brief(fc), desc(i))
				}
				if uint64(got.Count)+11 > uint64(cs.m) || got.Count > oc {
					return "x", "tread-count-not-lowered", fmt.Sprintf("inbound Tread count %d delivered as %d with msize %d: its reply cannot fit (%s)", oc, got.Count, cs.m, desc(i))
				}
				cls += "t"
			} else {
				if !EqFcall(&fc, ref.Msg) {
					return "x", "wrong-message:" + f.Class, fmt.Sprintf("frame %s delivered as %s, it encodes %s (%s)", f.Name, Brief(fc), Brief(ref.Msg), desc(i))
				}
				cls += "m"
				kept = append(kept, keptMsg{i, fc, ref.Msg})
			}
		}
	}
	// a message that was delivered stays what it was, whatever is read later
	// (its payload must not alias a buffer the channel reuses)
	recheck := func() (string, string, string) {
		for _, k := range kept {
			if !EqFcall(&k.got, k.want) {
				return "x", "delivered-message-changed", fmt.Sprintf("the message delivered for frame %d was %s; after later reads the same value reads %s (%s)", k.i, Brief(k.want), Brief(k.got), desc(k.i))
			}
		}
		return "", "", ""
	}
	if c, sg, tx := recheck(); sg != "" {
		return c, sg, tx
	}
	if cs.endAt < 0 {
		var fc p9p.Fcall
		var err error
		if p := catch(func() { err = ch.ReadFcall(context.Background(), &fc) }); p != "" {
			return "panic", "panic:eof", fmt.Sprintf("ReadFcall at end of stream panicked: %s (%s)", p, desc(len(cs.frames)))
		}
		if err == nil {
			return "x", "read-beyond-end", fmt.Sprintf("ReadFcall returned %s after the last frame: framing lost synchronisation (%s)", Brief(fc), desc(len(cs.frames)))
		}
		if c, sg, tx := recheck(); sg != "" {
			return c, sg, tx
		}
	}
	return cls, "", ""
}

func c03(c *core.Ctx) {
	c.SetLevel("model_checking")
	c.Budget(80*time.Second, 12*time.Minute)
	c.SetRule("histories of 1-2 (quick) / 1-3 (thorough) frames over an alphabet of valid frames of every kind, Treads whose count exceeds msize-11, frames oversize by k, unknown types, bodies cut at every length, length prefixes 0-3; msize in {24,32,64,256} (and, for the class representatives delivered at once and in 1000-byte chunks, {4096,4097,8192,65536}); byte stream delivered all at once (also with the last bytes arriving together with io.EOF), one byte per Read, and with every placement of 1 (quick) / 2 (thorough) cuts for class representatives; stream ending after every byte of the last frame. Each ReadFcall is compared with a reference frame parser whose verdict depends on the frame's bytes and msize only (so frame isolation is part of the oracle); every delivered message is compared again after all later reads (it must not alias a buffer the channel reuses). outcome = per-history string of verdict classes")
	c.Assume("reference parser + refcodec are the specification", "after a length prefix below 4 nothing further is asserted about the stream")
	msizes := []int{24, 32, 64, 256}
	var mu sync.Mutex
	classes := map[string]int64{}
	var total int64
	run := func(cases []c03Case) {
		var wg sync.WaitGroup
		jobs := make(chan int, 256)
		for w := 0; w < runtime.NumCPU(); w++ {
			wg.Add(1)
			go func() {
				defer wg.Done()
				local := map[string]int64{}
				var n int64
				for i := range jobs {
					for _, via := range []bool{false, true} {
						cls, sig, text := c03Run(cases[i], via)
						n++
						local[fmt.Sprintf("m%d/%s", cases[i].m, cls)]++
						if sig != "" {
							var names []string
							for _, f := range cases[i].frames {
								names = append(names, f.Name)
							}
							c.Violation("C03:"+sig, text, map[string]any{"msize": cases[i].m, "frames": names, "cuts": cases[i].cuts, "one_byte": cases[i].one, "end_at": cases[i].endAt, "via_setmsize": via})
						}
					}
				}
				mu.Lock()
				for k, v := range local {
					classes[k] += v
				}
				total += n
				mu.Unlock()
			}()
		}
		for i := range cases {
			if i%1024 == 0 && c.Expired() {
				c.NotExhaustive("time budget")
				break
			}
			jobs <- i
		}
		close(jobs)
		wg.Wait()
	}
	depth := 2
	if !c.Quick() {
		depth = 3
	}
	for _, m := range msizes {
		alpha := c03Alphabet(m, !c.Quick())
		var reps []c03Frame
		seen := map[string]int{}
		for _, f := range alpha {
			if seen[f.Class] < 2 {
				seen[f.Class]++
				reps = append(reps, f)
			}
		}
		var cases []c03Case
		// level A: all histories, delivered at once and byte by byte
		var rec func(cur []c03Frame, alpha []c03Frame, d int, emit func([]c03Frame))
		rec = func(cur []c03Frame, alpha []c03Frame, d int, emit func([]c03Frame)) {
			if len(cur) > 0 {
				emit(cur)
			}
			if len(cur) == d {
				return
			}
			for _, f := range alpha {
				rec(append(append([]c03Frame{}, cur...), f), alpha, d, emit)
			}
		}
		a := alpha
		d := depth
		if d == 3 {
			// depth 3 over the full alphabet is 10^6 histories per msize: use
			// it for depth 2, and the class representatives for depth 3
			rec(nil, reps, 3, func(h []c03Frame) {
				if len(h) == 3 {
					cases = append(cases, c03Case{m: m, frames: h, endAt: -1}, c03Case{m: m, frames: h, one: true, endAt: -1})
				}
			})
			d = 2
		}
		rec(nil, a, d, func(h []c03Frame) {
			cases = append(cases, c03Case{m: m, frames: h, endAt: -1}, c03Case{m: m, frames: h, one: true, endAt: -1}, c03Case{m: m, frames: h, endAt: -1, eofDat: true})
		})
		// stream ending after every byte of the last frame
		rec(nil, reps, 2, func(h []c03Frame) {
			last := h[len(h)-1]
			for e := 0; e < len(last.Bytes) && e < 40; e++ {
				cases = append(cases, c03Case{m: m, frames: h, endAt: e})
			}
		})
		// level B: every placement of cuts for class representatives
		rec(nil, reps, 2, func(h []c03Frame) {
			n := 0
			for _, f := range h {
				n += len(f.Bytes)
			}
			if n > 400 {
				n = 400
			}
			for c1 := 1; c1 < n; c1++ {
				cases = append(cases, c03Case{m: m, frames: h, cuts: []int{c1}, endAt: -1})
				if !c.Quick() && len(h) == 2 {
					for c2 := c1 + 1; c2 < n && c2 < c1+12; c2++ {
						cases = append(cases, c03Case{m: m, frames: h, cuts: []int{c1, c2}, endAt: -1})
					}
				}
			}
		})
		run(cases)
		c.Set(fmt.Sprintf("alphabet_size_msize_%d", m), len(alpha))
		if c.Expired() {
			break
		}
	}
	// large msize values (buffers that may be sized or grown lazily): class
	// representatives, histories of 1-2 frames, delivered at once and in
	// chunks of 1000 bytes
	for _, m := range []int{4096, 4097, 8192, 65536} {
		if c.Expired() {
			break
		}
		alpha := c03Alphabet(m, false)
		var reps []c03Frame
		seen := map[string]int{}
		for _, f := range alpha {
			if seen[f.Class] < 2 {
				seen[f.Class]++
				reps = append(reps, f)
			}
		}
		var cases []c03Case
		for _, a := range reps {
			cases = append(cases, c03Case{m: m, frames: []c03Frame{a}, endAt: -1})
			for _, b := range reps {
				h := []c03Frame{a, b}
				cases = append(cases, c03Case{m: m, frames: h, endAt: -1})
				n := len(a.Bytes) + len(b.Bytes)
				var cuts []int
				for at := 1000; at < n; at += 1000 {
					cuts = append(cuts, at)
				}
				if len(cuts) > 0 {
					cases = append(cases, c03Case{m: m, frames: h, cuts: cuts, endAt: -1})
				}
			}
		}
		run(cases)
		c.Set(fmt.Sprintf("alphabet_size_msize_%d", m), len(reps))
	}
	c.Count(total, int64(len(classes)), total, total)
	for k, v := range classes {
		c.Outcome(k, v)
	}
	c.Sample(map[string]any{"msize": 32, "frames": []string{"valid Tclunk", "short-body Tclunk cut at 3"}, "delivery": "one byte per Read", "expected": "message, then error"})
	c.Sample(map[string]any{"msize": 24, "frames": []string{"oversize+5", "valid Rflush"}, "delivery": "cut at byte 7", "expected": "Overflow(err)=5, then message"})
}
