package props

import (
	"context"
	"fmt"
	"os"
	"sort"
	"strings"
	"time"

	"github.com/frobnitzem/go-p9p/zzverif/core"
	"github.com/frobnitzem/go-p9p/zzverif/explore"
	"github.com/frobnitzem/go-p9p/zzverif/vatomic"
	"github.com/frobnitzem/go-p9p/zzverif/vsched"
	"github.com/frobnitzem/go-p9p/zzverif/vsync"
)

func init() {
	Registry["SELFTEST"] = selftest
	ScenarioFns["SELFTEST"] = selfScenarios
}

type selfState struct {
	x    int
	out  []string
	done int
}

func (s *selfState) outcome() string {
	sort.Strings(s.out)
	return fmt.Sprintf("x=%d %s", s.x, strings.Join(s.out, ","))
}

func plainCheck(state any, e *vsched.Exec) (string, []explore.Finding) {
	s := state.(*selfState)
	o := s.outcome()
	if len(e.Blocked) > 0 {
		o += " DEADLOCK"
	}
	if len(e.Panics) > 0 {
		o += " PANIC"
	}
	return o, nil
}

func selfScenarios() []*explore.Scenario {
	var out []*explore.Scenario
	add := func(name string, body func(s *selfState)) {
		out = append(out, &explore.Scenario{Name: name, Check: plainCheck, Body: func() any {
			s := &selfState{}
			body(s)
			return s
		}})
	}
	add("lostupdate", func(s *selfState) {
		for i := 0; i < 2; i++ {
			vsched.Go("inc", func() {
				vsched.Yield("read", 1)
				r := s.x
				vsched.Yield("write", 1)
				s.x = r + 1
			})
		}
	})
	// an atomic flag read between two hooked operations of another task:
	// both orders must be explored (vatomic makes atomics scheduling points)
	add("atomicflag", func(s *selfState) {
		var f vatomic.Bool
		var m vsync.Mutex
		vsched.Go("reader", func() {
			m.Lock()
			m.Unlock()
			a := f.Load()
			b := f.Load()
			s.out = append(s.out, fmt.Sprint(a, b))
		})
		vsched.Go("setter", func() { f.Store(true) })
	})
	add("yields3", func(s *selfState) {
		for i := 0; i < 2; i++ {
			vsched.Go("y", func() {
				for j := 0; j < 3; j++ {
					vsched.Yield("y", 0)
				}
			})
		}
	})
	add("select2", func(s *selfState) {
		a, b := make(chan int, 1), make(chan int, 1)
		a <- 1
		b <- 2
		vsched.Go("sel", func() {
			i, v, _ := vsched.Select("s", false, vsched.RecvCase(a), vsched.RecvCase(b))
			s.out = append(s.out, fmt.Sprintf("case%d=%v", i, v))
		})
	})
	add("rendezvous", func(s *selfState) {
		ch := make(chan string)
		vsched.Go("snd", func() { vsched.Send("s", ch, "hello"); s.out = append(s.out, "sent") })
		vsched.Go("rcv", func() { v := vsched.Recv("r", ch); s.out = append(s.out, "got "+v) })
	})
	add("buffered", func(s *selfState) {
		ch := make(chan int, 1)
		vsched.Go("snd", func() { vsched.Send("s", ch, 1); vsched.Send("s", ch, 2); s.out = append(s.out, "sent2") })
		vsched.Go("rcv", func() {
			a := vsched.Recv("r", ch)
			b := vsched.Recv("r", ch)
			s.out = append(s.out, fmt.Sprint("got", a, b))
		})
	})
	add("closed", func(s *selfState) {
		ch := make(chan int)
		vsched.Go("closer", func() { vsched.CloseChan("c", ch) })
		vsched.Go("rcv", func() { _, ok := vsched.Recv2("r", ch); s.out = append(s.out, fmt.Sprint("ok=", ok)) })
		vsched.Go("poll", func() {
			i, _, _ := vsched.Select("p", true, vsched.RecvCase(ch))
			s.out = append(s.out, fmt.Sprint("poll=", i))
		})
	})
	add("lockorder", func(s *selfState) {
		var a, b vsync.Mutex
		vsched.Go("ab", func() { a.Lock(); b.Lock(); s.x++; b.Unlock(); a.Unlock() })
		vsched.Go("ba", func() { b.Lock(); a.Lock(); s.x++; a.Unlock(); b.Unlock() })
	})
	add("cancel", func(s *selfState) {
		parent, cancel := vsched.WithCancel(context.Background())
		child, cancel2 := vsched.WithCancel(parent)
		_ = cancel2
		other := make(chan int)
		vsched.Go("waiter", func() {
			i, _, _ := vsched.Select("w", false, vsched.RecvCase(child.Done()), vsched.RecvCase(other))
			s.out = append(s.out, fmt.Sprint("woke=", i, child.Err()))
		})
		vsched.Go("canceller", func() { cancel() })
	})
	add("once", func(s *selfState) {
		var o vsync.Once
		for i := 0; i < 3; i++ {
			vsched.Go("o", func() {
				o.Do(func() { vsched.Yield("in-once", 0); s.x++ })
				s.out = append(s.out, fmt.Sprint("saw", s.x))
			})
		}
	})
	add("selectsend", func(s *selfState) {
		ch := make(chan int)
		quit := make(chan struct{})
		vsched.Go("producer", func() {
			i, _, _ := vsched.Select("p", false, vsched.SendCase(ch, 7), vsched.RecvCase(quit))
			s.out = append(s.out, fmt.Sprint("p=", i))
		})
		vsched.Go("consumer", func() {
			i, v, _ := vsched.Select("c", false, vsched.RecvCase(ch), vsched.RecvCase(quit))
			s.out = append(s.out, fmt.Sprint("c=", i, v))
		})
		vsched.Go("quitter", func() { vsched.CloseChan("q", quit) })
	})
	add("panic", func(s *selfState) {
		var m vsync.Mutex
		vsched.Go("p", func() { m.Lock(); panic("boom") })
		vsched.Go("q", func() { m.Lock(); s.x++; m.Unlock() })
	})
	// race-mode self-tests: per-task state only
	add("race/racy", func(s *selfState) {
		shared := new(int)
		for i := 0; i < 2; i++ {
			vsched.Go("w", func() {
				vsched.Yield("before", 0)
				*shared = *shared + 1
				vsched.Yield("after", 0)
			})
		}
	})
	add("race/clean", func(s *selfState) {
		shared := new(int)
		var mu vsync.Mutex
		ch := make(chan int, 1)
		vsched.Go("w1", func() { mu.Lock(); *shared++; mu.Unlock(); vsched.Send("s", ch, 1) })
		vsched.Go("w2", func() {
			mu.Lock()
			*shared++
			mu.Unlock()
			vsched.Recv("r", ch)
			mu.Lock()
			*shared++
			mu.Unlock()
		})
	})
	add("race/handoff", func(s *selfState) {
		// ownership passed through an unbuffered channel: no race
		ch := make(chan *int)
		vsched.Go("producer", func() { v := new(int); *v = 42; vsched.Send("s", ch, v) })
		vsched.Go("consumer", func() { v := vsched.Recv("r", ch); *v = *v + 1 })
	})
	add("race/once", func(s *selfState) {
		var o vsync.Once
		n := new(int)
		for i := 0; i < 3; i++ {
			vsched.Go("o", func() { o.Do(func() { vsched.Yield("in-once", 0); *n++ }); _ = *n })
		}
	})
	add("race/select", func(s *selfState) {
		ch := make(chan *int)
		quit := make(chan struct{})
		vsched.Go("producer", func() {
			v := new(int)
			*v = 1
			vsched.Select("p", false, vsched.SendCase(ch, v), vsched.RecvCase(quit))
		})
		vsched.Go("consumer", func() {
			i, v, _ := vsched.Select("c", false, vsched.RecvCase(ch), vsched.RecvCase(quit))
			if i == 0 {
				*(v.(*int))++
			}
		})
		vsched.Go("quitter", func() { vsched.CloseChan("q", quit) })
	})
	add("choose", func(s *selfState) {
		a := vsched.Choose("a", 3, true)
		b := vsched.Choose("b", 2, true)
		s.out = append(s.out, fmt.Sprint(a, b))
	})
	return out
}

func selftest(c *core.Ctx) {
	c.Budget(60*time.Second, 60*time.Second)
	c.SetRule("engine self-tests: tiny programs with known sets of outcomes and schedule counts")
	fail := func(name, format string, a ...any) {
		c.EngineError("selftest %s: %s", name, fmt.Sprintf(format, a...))
	}
	run := func(name string, pb, db int, nocache bool) *explore.Stats {
		sc := Lookup("SELFTEST", name)
		st := explore.Local(sc, explore.Options{PBound: pb, DBound: db, NoCache: nocache}, nil)
		if st.Err != "" {
			fail(name, "%s", st.Err)
		}
		c.Count(st.Execs, st.States, st.Steps, st.Execs)
		for k, v := range st.Outcomes {
			c.Outcome(name+":"+k, v)
		}
		return st
	}
	has := func(st *explore.Stats, sub string) bool {
		for k := range st.Outcomes {
			if strings.Contains(k, sub) {
				return true
			}
		}
		return false
	}
	expectSet := func(name string, st *explore.Stats, want ...string) {
		var got []string
		for k := range st.Outcomes {
			got = append(got, k)
		}
		sort.Strings(got)
		sort.Strings(want)
		if strings.Join(got, "|") != strings.Join(want, "|") {
			fail(name, "outcomes %q, want %q", got, want)
		}
	}
	st := run("lostupdate", 0, 0, true)
	expectSet("lostupdate@0", st, "x=2 ")
	st = run("lostupdate", 1, 0, true)
	expectSet("lostupdate@1", st, "x=2 ", "x=1 ")
	st = run("atomicflag", 0, 0, true)
	expectSet("atomicflag@0", st, "x=0 false false", "x=0 true true")
	st = run("atomicflag", 1, 0, true)
	expectSet("atomicflag@1", st, "x=0 false false", "x=0 true true", "x=0 false true")
	st = run("yields3", 99, 0, true)
	// two tasks, each start + 3 yields = 4 moves: C(8,4) = 70 interleavings
	if st.Execs != 70 {
		fail("yields3", "%d schedules, want 70", st.Execs)
	}
	st = run("select2", 0, 0, true)
	expectSet("select2", st, "x=0 case0=1", "x=0 case1=2")
	st = run("rendezvous", 9, 0, true)
	expectSet("rendezvous", st, "x=0 got hello,sent")
	st = run("buffered", 9, 0, true)
	expectSet("buffered", st, "x=0 got1 2,sent2")
	st = run("closed", 9, 0, true)
	expectSet("closed", st, "x=0 ok=false,poll=-1", "x=0 ok=false,poll=0")
	st = run("lockorder", 0, 0, true)
	expectSet("lockorder@0", st, "x=2 ")
	st = run("lockorder", 1, 0, true)
	if !has(st, "DEADLOCK") || !has(st, "x=2") {
		fail("lockorder@1", "deadlock not found: %v", st.Outcomes)
	}
	st = run("cancel", 9, 0, true)
	expectSet("cancel", st, "x=0 woke=0 context canceled")
	st = run("once", 9, 0, true)
	expectSet("once", st, "x=1 saw1,saw1,saw1")
	st = run("selectsend", 9, 0, true)
	expectSet("selectsend", st, "x=0 c=0 7,p=0", "x=0 c=1 {},p=1")
	st = run("panic", 9, 0, true)
	if !has(st, "PANIC") {
		fail("panic", "panic not recorded: %v", st.Outcomes)
	}
	for k := range st.Outcomes {
		// after p panics while holding the lock, q can never get it
		if strings.Contains(k, "PANIC") && !strings.Contains(k, "x=1") && !strings.Contains(k, "DEADLOCK") {
			fail("panic", "unexpected outcome %q", k)
		}
	}
	st = run("choose", 0, 0, true)
	expectSet("choose@d0", st, "x=0 0 0")
	st = run("choose", 0, 1, true)
	expectSet("choose@d1", st, "x=0 0 0", "x=0 1 0", "x=0 2 0", "x=0 0 1")
	st = run("choose", 0, 2, true)
	if len(st.Outcomes) != 6 {
		fail("choose@d2", "%d outcomes, want 6", len(st.Outcomes))
	}
	// the happens-before cache must not change the set of outcomes
	for _, cc := range []struct {
		prop, name string
		bound      int
	}{{"C06", "k2[t1 t1]async", 1}, {"C06", "k2[t1 t2]async", 1}, {"C05", "2x1~d", 2}, {"C07", "flush-reuse/ignore~d", 2}} {
		name := cc.name
		sc := Lookup(cc.prop, name)
		if sc == nil {
			fail("cache", "scenario %s missing", name)
			continue
		}
		dl := time.Now().Add(20 * time.Second)
		a := explore.Local(sc, explore.Options{PBound: cc.bound, NoCache: true, Deadline: dl}, nil)
		b := explore.Local(sc, explore.Options{PBound: cc.bound, Deadline: dl}, nil)
		c.Count(a.Execs+b.Execs, b.States, a.Steps+b.Steps, a.Execs+b.Execs-b.Pruned)
		ka, kb := keys(a.Outcomes), keys(b.Outcomes)
		if !a.Complete || !b.Complete {
			c.Set("cache_check "+name, "skipped: time budget")
			continue
		}
		if strings.Join(ka, "|") != strings.Join(kb, "|") || len(a.Viol) != len(b.Viol) {
			fail("cache", "%s: uncached %d executions outcomes %q; cached %d executions (%d pruned) outcomes %q", name, a.Execs, ka, b.Execs, b.Pruned, kb)
		}
		c.Set("cache_check "+name, fmt.Sprintf("uncached %d executions, cached %d (%d cut short), same %d outcomes", a.Execs, b.Execs, b.Pruned, len(ka)))
	}
	// race mode: the detector must report the unsynchronised pair on the
	// serialised schedules, and nothing else (engine, shims, clean programs)
	if _, err := os.Stat(explore.RaceBinary()); err == nil {
		for _, tc := range []struct {
			name string
			want bool
		}{{"race/racy", true}, {"race/clean", false}, {"race/handoff", false}, {"race/once", false}, {"race/select", false}, {"cancel", false}, {"lockorder", false}} {
			sc := Lookup("SELFTEST", tc.name)
			st, reps, err := explore.RaceRun("SELFTEST", sc, explore.Options{PBound: 2}, true, nil)
			if err != nil {
				fail("race-mode", "%s: %v", tc.name, err)
				continue
			}
			c.Count(st.Execs, st.States, st.Steps, st.Execs)
			if tc.want && len(reps) == 0 {
				fail("race-mode", "%s: the unsynchronised increments were not reported in %d executions", tc.name, st.Execs)
			}
			if !tc.want && len(reps) > 0 {
				fail("race-mode", "%s: %d spurious race report(s):\n%s", tc.name, len(reps), reps[0].Text)
			}
			if tc.want && len(reps) > 0 && !strings.Contains(reps[0].Text, "selftest.go") {
				fail("race-mode", "%s: unexpected report:\n%s", tc.name, reps[0].Text)
			}
			c.Set("race_mode "+tc.name, fmt.Sprintf("%d executions, %d race report(s)", st.Execs, len(reps)))
		}
		c.Set("race_mode", "available")
	} else {
		c.Set("race_mode", "race-detector build not present; race-mode self-tests skipped")
	}
	// determinism: replay one schedule twice
	sc := Lookup("SELFTEST", "selectsend")
	e1, _, _ := explore.Replay(sc, []int{1, 0, 1})
	e2, _, _ := explore.Replay(sc, []int{1, 0, 1})
	if explore.Render(e1) != explore.Render(e2) {
		fail("determinism", "same schedule, different observations")
	}
	c.Sample(map[string]any{"scenario": "selectsend", "choices": []int{1, 0, 1}, "trace": e1.Trace})
	c.Set("determinism_check", "ok")
}

func keys(m map[string]int64) []string {
	var out []string
	for k := range m {
		out = append(out, k)
	}
	sort.Strings(out)
	return out
}
