package props

import (
	"bytes"
	"fmt"
	"reflect"
	"runtime"
	"strings"
	"sync"
	"time"

	p9p "github.com/frobnitzem/go-p9p"
	"github.com/frobnitzem/go-p9p/zzverif/core"
	"github.com/frobnitzem/go-p9p/zzverif/refcodec"
)

func init() { Registry["C01"] = c01 }

// field alphabets; the first `quick` entries form the quick tier
var (
	aU8   = []uint8{0, 0xFF, 1, 0x7F}
	aU16  = []uint16{0, 0xFFFF, 0x0102, 1}
	aU32  = []uint32{0, 0xFFFFFFFF, 0x01020304, 1}
	aU64  = []uint64{0, ^uint64(0), 0x0102030405060708, 1}
	aTime = []uint32{1, 0xFFFFFFFF, 0x81020304, 0}
	aTag  = []p9p.Tag{0x0102, 0xFFFF, 0, 1, 0xFFFE}
	aStr  = []string{"", "j\u00fcrgen \u20ac \U0001F600\x00\x00", "\xff\xfe\x00z", strings.Repeat("x", 300), strings.Repeat("y", 65535), "a"}
)

func pat(n int) []byte {
	b := make([]byte, n)
	for i := range b {
		b[i] = byte(i*7 + 3)
	}
	return b
}

var aData = [][]byte{nil, {7}, pat(300), pat(70000)}

func nameList(n int, s string) []string {
	if n == 0 {
		return nil
	}
	l := make([]string, n)
	for i := range l {
		l[i] = s
	}
	return l
}

func qidList(n int) []p9p.Qid {
	if n == 0 {
		return nil
	}
	l := make([]p9p.Qid, n)
	for i := range l {
		l[i] = p9p.Qid{Type: p9p.QType(i * 5), Version: uint32(i) * 0x01010101, Path: uint64(i)<<33 | 0x11}
	}
	return l
}

type lattice struct {
	name string
	dims []int
	mk   func(idx []int) p9p.Message
}

func lim(n, k int) int {
	if k < n {
		return k
	}
	return n
}

// lattices builds, per message kind, the full cross product of per-field
// alphabets truncated to k entries per field (strings/lists: ks entries).
func lattices(k, ks int, dirK int) []lattice {
	n8, n16, n32, n64 := lim(len(aU8), k), lim(len(aU16), k), lim(len(aU32), k), lim(len(aU64), k)
	ns := lim(len(aStr), ks)
	nd := lim(len(aData), ks)
	listLens := []int{0, 1, 2, 16, 65535}
	nl := lim(len(listLens), ks)
	_ = n16
	qid := func(i, j, l int) p9p.Qid {
		return p9p.Qid{Type: p9p.QType(aU8[i]), Version: aU32[j], Path: aU64[l]}
	}
	dk := dirK
	dir := func(ix []int) p9p.Dir {
		return p9p.Dir{
			Type: aU16[ix[0]], Dev: aU32[ix[1]],
			Qid:        p9p.Qid{Type: p9p.QType(aU8[ix[2]]), Version: aU32[ix[3]], Path: aU64[ix[4]]},
			Mode:       aU32[ix[5]],
			AccessTime: time.Unix(int64(aTime[ix[6]]), 0), ModTime: time.Unix(int64(aTime[(ix[7]+1)%len(aTime)]), 0),
			Length: aU64[ix[8]],
			Name:   aStr[ix[9]], UID: aStr[(ix[10]+1)%3], GID: aStr[(ix[11]+2)%3], MUID: aStr[ix[12]%3],
		}
	}
	dirDims := []int{dk, dk, dk, dk, dk, dk, dk, dk, dk, lim(4, dk), lim(3, dk), lim(3, dk), lim(3, dk)}
	return []lattice{
		{"Tversion", []int{n32, ns}, func(x []int) p9p.Message { return p9p.MessageTversion{MSize: aU32[x[0]], Version: aStr[x[1]]} }},
		{"Rversion", []int{n32, ns}, func(x []int) p9p.Message { return p9p.MessageRversion{MSize: aU32[x[0]], Version: aStr[x[1]]} }},
		{"Tauth", []int{n32, ns, ns}, func(x []int) p9p.Message {
			return p9p.MessageTauth{Afid: p9p.Fid(aU32[x[0]]), Uname: aStr[x[1]], Aname: aStr[x[2]]}
		}},
		{"Rauth", []int{n8, n32, n64}, func(x []int) p9p.Message { return p9p.MessageRauth{Qid: qid(x[0], x[1], x[2])} }},
		{"Tattach", []int{n32, n32, ns, ns}, func(x []int) p9p.Message {
			return p9p.MessageTattach{Fid: p9p.Fid(aU32[x[0]]), Afid: p9p.Fid(aU32[(x[1]+1)%len(aU32)]), Uname: aStr[x[2]], Aname: aStr[(x[3]+1)%len(aStr)]}
		}},
		{"Rattach", []int{n8, n32, n64}, func(x []int) p9p.Message { return p9p.MessageRattach{Qid: qid(x[0], x[1], x[2])} }},
		{"Rerror", []int{ns}, func(x []int) p9p.Message { return p9p.MessageRerror{Ename: aStr[x[0]]} }},
		{"Tflush", []int{n16}, func(x []int) p9p.Message { return p9p.MessageTflush{Oldtag: p9p.Tag(aU16[x[0]])} }},
		{"Rflush", []int{1}, func(x []int) p9p.Message { return p9p.MessageRflush{} }},
		{"Twalk", []int{n32, n32, nl, lim(3, ns)}, func(x []int) p9p.Message {
			return p9p.MessageTwalk{Fid: p9p.Fid(aU32[x[0]]), Newfid: p9p.Fid(aU32[(x[1]+1)%len(aU32)]), Wnames: nameList(listLens[x[2]], aStr[x[3]])}
		}},
		{"Rwalk", []int{nl}, func(x []int) p9p.Message { return p9p.MessageRwalk{Qids: qidList(listLens[x[0]])} }},
		{"Topen", []int{n32, n8}, func(x []int) p9p.Message {
			return p9p.MessageTopen{Fid: p9p.Fid(aU32[x[0]]), Mode: p9p.Flag(aU8[x[1]])}
		}},
		{"Ropen", []int{n8, n32, n64, n32}, func(x []int) p9p.Message {
			return p9p.MessageRopen{Qid: qid(x[0], x[1], x[2]), IOUnit: aU32[(x[3]+1)%len(aU32)]}
		}},
		{"Tcreate", []int{n32, ns, n32, n8}, func(x []int) p9p.Message {
			return p9p.MessageTcreate{Fid: p9p.Fid(aU32[x[0]]), Name: aStr[x[1]], Perm: aU32[(x[2]+1)%len(aU32)], Mode: p9p.Flag(aU8[x[3]])}
		}},
		{"Rcreate", []int{n8, n32, n64, n32}, func(x []int) p9p.Message {
			return p9p.MessageRcreate{Qid: qid(x[0], x[1], x[2]), IOUnit: aU32[(x[3]+1)%len(aU32)]}
		}},
		{"Tread", []int{n32, n64, n32}, func(x []int) p9p.Message {
			return p9p.MessageTread{Fid: p9p.Fid(aU32[x[0]]), Offset: aU64[x[1]], Count: aU32[(x[2]+1)%len(aU32)]}
		}},
		{"Rread", []int{nd}, func(x []int) p9p.Message { return p9p.MessageRread{Data: aData[x[0]]} }},
		{"Twrite", []int{n32, n64, nd}, func(x []int) p9p.Message {
			return p9p.MessageTwrite{Fid: p9p.Fid(aU32[x[0]]), Offset: aU64[x[1]], Data: aData[x[2]]}
		}},
		{"Rwrite", []int{n32}, func(x []int) p9p.Message { return p9p.MessageRwrite{Count: aU32[x[0]]} }},
		{"Tclunk", []int{n32}, func(x []int) p9p.Message { return p9p.MessageTclunk{Fid: p9p.Fid(aU32[x[0]])} }},
		{"Rclunk", []int{1}, func(x []int) p9p.Message { return p9p.MessageRclunk{} }},
		{"Tremove", []int{n32}, func(x []int) p9p.Message { return p9p.MessageTremove{Fid: p9p.Fid(aU32[x[0]])} }},
		{"Rremove", []int{1}, func(x []int) p9p.Message { return p9p.MessageRremove{} }},
		{"Tstat", []int{n32}, func(x []int) p9p.Message { return p9p.MessageTstat{Fid: p9p.Fid(aU32[x[0]])} }},
		{"Rstat", dirDims, func(x []int) p9p.Message { return p9p.MessageRstat{Stat: dir(x)} }},
		{"Twstat", append([]int{n32}, dirDims...), func(x []int) p9p.Message {
			return p9p.MessageTwstat{Fid: p9p.Fid(aU32[x[0]]), Stat: dir(x[1:])}
		}},
		{"Rwstat", []int{1}, func(x []int) p9p.Message { return p9p.MessageRwstat{} }},
	}
}

// checkWire is the C01 oracle for one message.
func checkWire(codec p9p.Codec, tag p9p.Tag, m p9p.Message) (sig, msg string) {
	fc := &p9p.Fcall{Type: m.Type(), Tag: tag, Message: m}
	want, err := refcodec.Encode(fc)
	if err != nil {
		return "C01:harness", err.Error()
	}
	kind := fmt.Sprintf("%T", m)
	var got []byte
	if p := catch(func() { got, err = codec.Marshal(fc) }); p != "" {
		return "C01:marshal-panic:" + kind, p
	}
	if err != nil {
		return "C01:marshal-error:" + kind, err.Error()
	}
	if !bytes.Equal(got, want) {
		return "C01:layout:" + kind, fmt.Sprintf("encoding of %s differs from the 9P2000 layout at byte %d: got % x..., want % x...", Brief(fc), firstDiff(got, want), head(got, 48), head(want, 48))
	}
	if sz := codec.Size(fc); sz != len(got) {
		return "C01:size:" + kind, fmt.Sprintf("Size(%s)=%d but %d bytes were produced", Brief(fc), sz, len(got))
	}
	var back p9p.Fcall
	if p := catch(func() { err = codec.Unmarshal(got, &back) }); p != "" {
		return "C01:unmarshal-panic:" + kind, p
	}
	if err != nil {
		return "C01:unmarshal-error:" + kind, fmt.Sprintf("decoding own encoding of %s: %v", Brief(fc), err)
	}
	if !EqFcall(&back, fc) {
		return "C01:roundtrip:" + kind, fmt.Sprintf("decode(encode(m)) != m: sent %s got %s", Brief(fc), Brief(back))
	}
	// the same message handed over by pointer (both T and *T implement
	// Message; handlers do return pointers): same bytes, same Size
	if pm, ok := ptrForm(m); ok {
		pfc := &p9p.Fcall{Type: m.Type(), Tag: tag, Message: pm}
		var pgot []byte
		var perr error
		if p := catch(func() { pgot, perr = codec.Marshal(pfc) }); p != "" {
			return "C01:marshal-panic:*" + kind[strings.Index(kind, ".")+1:], p
		}
		if perr == nil {
			if !bytes.Equal(pgot, want) {
				return "C01:layout:pointer:" + kind, fmt.Sprintf("encoding of the pointer form of %s differs from the 9P2000 layout at byte %d", Brief(fc), firstDiff(pgot, want))
			}
			if sz := codec.Size(pfc); sz != len(pgot) {
				return "C01:size:pointer:" + kind, fmt.Sprintf("Size of the pointer form of %s is %d but %d bytes were produced", Brief(fc), sz, len(pgot))
			}
		}
	}
	ref, trailing, err := refcodec.Decode(got)
	if err != nil || trailing != 0 || !EqFcall(ref, fc) {
		return "C01:peer-decode:" + kind, fmt.Sprintf("an independent 9P2000 decoder reads %s as %s (err=%v trailing=%d)", Brief(fc), Brief(ref), err, trailing)
	}
	// decode direction against an independent peer: bytes produced by the
	// reference encoder must decode to the message
	return "", ""
}

// ptrForm returns m as a pointer to a copy of itself, if that is a Message too.
func ptrForm(m p9p.Message) (p9p.Message, bool) {
	t := reflect.TypeOf(m)
	if t.Kind() == reflect.Ptr {
		return nil, false
	}
	pv := reflect.New(t)
	pv.Elem().Set(reflect.ValueOf(m))
	pm, ok := pv.Interface().(p9p.Message)
	return pm, ok
}

func firstDiff(a, b []byte) int {
	for i := 0; i < len(a) && i < len(b); i++ {
		if a[i] != b[i] {
			return i
		}
	}
	if len(a) < len(b) {
		return len(a)
	}
	return len(b)
}

func head(b []byte, n int) []byte {
	if len(b) > n {
		return b[:n]
	}
	return b
}

// sweep varies the length of one variable-length field of one message kind.
type sweep struct {
	name string
	max  int // largest length on the wire's range
	mk   func(n int) p9p.Message
}

func sweeps() []sweep {
	str := func(n int) string { return strings.Repeat("s", n) }
	d := func(f func(d *p9p.Dir, s string)) func(n int) p9p.Message {
		return func(n int) p9p.Message {
			dir := p9p.Dir{Type: 1, Dev: 2, Qid: p9p.Qid{Type: 3, Version: 4, Path: 5}, Mode: 6, AccessTime: time.Unix(7, 0), ModTime: time.Unix(8, 0), Length: 9, Name: "n", UID: "u", GID: "g", MUID: "m"}
			f(&dir, str(n))
			return p9p.MessageRstat{Stat: dir}
		}
	}
	const S = 65535
	return []sweep{
		{"Tversion.version", S, func(n int) p9p.Message { return p9p.MessageTversion{MSize: 1, Version: str(n)} }},
		{"Rversion.version", S, func(n int) p9p.Message { return p9p.MessageRversion{MSize: 1, Version: str(n)} }},
		{"Tauth.uname", S, func(n int) p9p.Message { return p9p.MessageTauth{Afid: 1, Uname: str(n), Aname: "a"} }},
		{"Tauth.aname", S, func(n int) p9p.Message { return p9p.MessageTauth{Afid: 1, Uname: "u", Aname: str(n)} }},
		{"Tattach.uname", S, func(n int) p9p.Message { return p9p.MessageTattach{Fid: 1, Afid: 2, Uname: str(n), Aname: "a"} }},
		{"Tattach.aname", S, func(n int) p9p.Message { return p9p.MessageTattach{Fid: 1, Afid: 2, Uname: "u", Aname: str(n)} }},
		{"Rerror.ename", S, func(n int) p9p.Message { return p9p.MessageRerror{Ename: str(n)} }},
		{"Twalk.wname", S, func(n int) p9p.Message {
			return p9p.MessageTwalk{Fid: 1, Newfid: 2, Wnames: []string{"a", str(n), "b"}}
		}},
		{"Twalk.nwname", S, func(n int) p9p.Message { return p9p.MessageTwalk{Fid: 1, Newfid: 2, Wnames: nameList(n, "ab")} }},
		{"Rwalk.nwqid", S, func(n int) p9p.Message { return p9p.MessageRwalk{Qids: qidList(n)} }},
		{"Tcreate.name", S, func(n int) p9p.Message { return p9p.MessageTcreate{Fid: 1, Name: str(n), Perm: 2, Mode: 3} }},
		{"Rread.data", 1 << 24, func(n int) p9p.Message { return p9p.MessageRread{Data: pat(n)} }},
		{"Twrite.data", 1 << 24, func(n int) p9p.Message { return p9p.MessageTwrite{Fid: 1, Offset: 2, Data: pat(n)} }},
		{"Rstat.name", S - 60, d(func(d *p9p.Dir, s string) { d.Name = s })},
		{"Rstat.uid", S - 60, d(func(d *p9p.Dir, s string) { d.UID = s })},
		{"Rstat.gid", S - 60, d(func(d *p9p.Dir, s string) { d.GID = s })},
		{"Rstat.muid", S - 60, d(func(d *p9p.Dir, s string) { d.MUID = s })},
		{"Twstat.name", S - 60, func(n int) p9p.Message {
			return p9p.MessageTwstat{Fid: 1, Stat: d(func(d *p9p.Dir, s string) { d.Name = s })(n).(p9p.MessageRstat).Stat}
		}},
	}
}

// sweepLens: every length up to 1100 (quick) or 4200 (thorough), every power
// of two up to 2^20 / 2^24 with its neighbours, and the top of the 16-bit range.
func sweepLens(quick bool) []int {
	dense, top, pmax := 1100, 70, 1<<20
	if !quick {
		dense, top, pmax = 4200, 600, 1<<24
	}
	seen := map[int]bool{}
	var out []int
	add := func(n int) {
		if n >= 0 && !seen[n] {
			seen[n] = true
			out = append(out, n)
		}
	}
	for n := 0; n <= dense; n++ {
		add(n)
	}
	for p := 1; p <= pmax; p <<= 1 {
		for dlt := -3; dlt <= 3; dlt++ {
			add(p + dlt)
		}
	}
	for n := 65535 - top; n <= 65535+2; n++ {
		add(n)
	}
	return out
}

func c01(c *core.Ctx) {
	c.SetLevel("exploration")
	c.Budget(60*time.Second, 12*time.Minute)
	c.SetRule("per message kind: full cross product (mixed-radix counter) of per-field boundary alphabets; oracle = byte equality with an independent 9P2000 encoder, Size == len, decode(encode(m)) == m, independent decoder reads m; distinct = (kind, encoded length) classes. Then, per variable-length field (every string, both data fields, both list counts), a sweep over every length 0..1100 (quick) / 0..4200 (thorough), every power of two up to 2^20 / 2^24 with its neighbours +-3, and the top of the 16-bit range, under the same oracle")
	c.Assume("refcodec (written from intro(5)/stat(5), no code shared with encoding.go) is the wire-format reference", "field values outside the alphabets are not enumerated")
	codec := p9p.NewCodec()
	k, ks, dk := 2, 3, 2
	if !c.Quick() {
		k, ks, dk = 4, 5, 3
	}
	lats := lattices(k, ks, dk)
	var mu sync.Mutex
	classes := map[string]int64{}
	for _, lt := range lats {
		lt := lt
		local := make([]map[string]int64, 0)
		_ = local
		total, complete := Cross(lt.dims, runtime.NumCPU(), c.Expired, func(idx []int) {
			m := lt.mk(idx)
			if !refcodec.Representable(m) {
				// outside the wire's range: only "must not panic"
				if p := catch(func() { codec.Marshal(&p9p.Fcall{Type: m.Type(), Tag: 1, Message: m}) }); p != "" {
					c.Violation("C01:marshal-panic-unrepresentable:"+lt.name, p, map[string]any{"kind": lt.name, "index": append([]int{}, idx...)})
				}
				return
			}
			sig, msg := checkWire(codec, aTag[0], m)
			if sig != "" {
				c.Violation(sig, msg, map[string]any{"kind": lt.name, "index": append([]int{}, idx...), "tag": aTag[0]})
			}
			n := codec.Size(&p9p.Fcall{Type: m.Type(), Tag: 1, Message: m})
			mu.Lock()
			classes[fmt.Sprintf("%s/len=%d", lt.name, n)]++
			mu.Unlock()
		})
		c.Count(total, 0, 0, 0)
		if !complete {
			c.NotExhaustive("time budget reached in " + lt.name)
		}
		// tags x the first few bodies of the kind
		for _, tag := range aTag {
			small := make([]int, len(lt.dims))
			for i, d := range lt.dims {
				small[i] = lim(d, 2)
			}
			t, _ := Cross(small, 1, nil, func(idx []int) {
				m := lt.mk(idx)
				if !refcodec.Representable(m) {
					return
				}
				if sig, msg := checkWire(codec, tag, m); sig != "" {
					c.Violation(sig, msg, map[string]any{"kind": lt.name, "index": append([]int{}, idx...), "tag": tag})
				}
			})
			c.Count(t, 0, 0, 0)
		}
		idx := make([]int, len(lt.dims))
		for i := range idx {
			idx[i] = lt.dims[i] - 1
		}
		c.Sample(map[string]any{"kind": lt.name, "dims": lt.dims, "last": Brief(lt.mk(idx))})
	}
	// stand-alone directory entries (EncodeDir / DecodeDir)
	dl := lats[len(lats)-3]
	total, _ := Cross(dl.dims, runtime.NumCPU(), c.Expired, func(idx []int) {
		d := dl.mk(idx).(p9p.MessageRstat).Stat
		if !refcodec.Representable(p9p.MessageRstat{Stat: d}) {
			return
		}
		var buf bytes.Buffer
		if p := catch(func() {
			if err := p9p.EncodeDir(codec, &buf, &d); err != nil {
				panic(err)
			}
		}); p != "" {
			c.Violation("C01:encodedir", p, map[string]any{"dir": Brief(d)})
			return
		}
		if !bytes.Equal(buf.Bytes(), refcodec.StatBytes(d)) {
			c.Violation("C01:layout:Dir", fmt.Sprintf("EncodeDir(%s) differs from stat(5)", Brief(d)), map[string]any{"index": append([]int{}, idx...)})
			return
		}
		var back p9p.Dir
		if err := p9p.DecodeDir(codec, bytes.NewReader(buf.Bytes()), &back); err != nil || !EqMsg(p9p.MessageRstat{Stat: back}, p9p.MessageRstat{Stat: d}) {
			c.Violation("C01:roundtrip:Dir", fmt.Sprintf("DecodeDir(EncodeDir(%s)) = %s, %v", Brief(d), Brief(back), err), map[string]any{"index": append([]int{}, idx...)})
		}
	})
	c.Count(total, 0, 0, 0)
	// length sweep: one variable-length field at a time, every length of a
	// dense range (not only the boundary alphabet above)
	lens := sweepLens(c.Quick())
	sw := sweeps()
	for _, s := range sw {
		s := s
		var ls []int
		for _, n := range lens {
			if n <= s.max {
				ls = append(ls, n)
			}
		}
		total, complete := Cross([]int{len(ls)}, runtime.NumCPU(), c.Expired, func(idx []int) {
			n := ls[idx[0]]
			m := s.mk(n)
			if !refcodec.Representable(m) {
				return
			}
			if sig, msg := checkWire(codec, 0x0102, m); sig != "" {
				c.Violation(sig+":len", msg, map[string]any{"sweep": s.name, "length": n})
			}
		})
		c.Count(total, 0, 0, 0)
		if !complete {
			c.NotExhaustive("time budget reached in sweep " + s.name)
		}
	}
	c.Set("length_sweeps", len(sw))
	c.Set("lengths_per_sweep", len(lens))
	for k, v := range classes {
		c.Outcome(k, v)
	}
	c.Set("message_kinds", len(lats))
}
