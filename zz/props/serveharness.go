package props

import (
	"context"
	"fmt"
	"strings"
	"time"

	p9p "github.com/frobnitzem/go-p9p"
	"github.com/frobnitzem/go-p9p/zzverif/refcodec"
	"github.com/frobnitzem/go-p9p/zzverif/vconn"
	"github.com/frobnitzem/go-p9p/zzverif/vsched"
)

// invocation is one call of the scripted handler.
type invocation struct {
	Msg      p9p.Message
	Ctx      context.Context
	Returned bool
}

// scriptHandler is a p9p.Handler whose result is a function of the
// request's identity (the fid of the message), and whose completion is a
// scheduling point, so that all completion orders are explored.
type scriptHandler struct {
	Calls   []*invocation
	Stops   int
	StopErr error
	// Mode: IgnoreCtx completes after Steps+1 scheduling points; HonourCtx
	// races completion against cancellation; BlockCtx returns only once
	// its context is cancelled.
	Mode int
	// Steps: extra scheduling points inside each handler.
	Steps   int
	Gate    int // GateAll: number of handlers that must have started
	started int
}

const (
	IgnoreCtx = iota
	HonourCtx
	BlockCtx
	GateAll // every handler waits until Gate handlers have started: forces full pipelining depth
	DepOn0  // request 0 returns only once cancelled; every other handler waits until request 0's handler has returned
)

// reqID extracts the identity the harness put into a request.
func reqID(m p9p.Message) int {
	switch v := m.(type) {
	case p9p.MessageTread:
		return int(v.Fid)
	case p9p.MessageTstat:
		return int(v.Fid)
	case p9p.MessageTwrite:
		return int(v.Fid)
	case p9p.MessageTclunk:
		return int(v.Fid)
	case p9p.MessageTopen:
		return int(v.Fid)
	case p9p.MessageTwalk:
		return int(v.Fid)
	case p9p.MessageTcreate:
		return int(v.Fid)
	case p9p.MessageTremove:
		return int(v.Fid)
	case p9p.MessageTwstat:
		return int(v.Fid)
	case p9p.MessageTattach:
		return int(v.Fid)
	case p9p.MessageTauth:
		return int(v.Afid)
	case p9p.MessageTversion:
		return int(v.MSize) - 5000
	}
	return -1
}

// resultFor is the reply the handler gives to request id: even ids succeed
// with an identifying payload, odd ids fail with an identifying error.
func resultFor(m p9p.Message) (p9p.Message, error) {
	id := reqID(m)
	if id%2 == 1 {
		// handlers report errors in all the shapes the server accepts: an
		// error value, an Rerror as error (by value, by pointer), and an
		// Rerror as the reply message itself (a relaying handler)
		switch id % 8 {
		case 1:
			return nil, fmt.Errorf("e%d", id)
		case 3:
			return nil, p9p.MessageRerror{Ename: fmt.Sprintf("e%d", id)}
		case 5:
			return nil, &p9p.MessageRerror{Ename: fmt.Sprintf("e%d", id)}
		default:
			return p9p.MessageRerror{Ename: fmt.Sprintf("e%d", id)}, nil
		}
	}
	switch m.(type) {
	case p9p.MessageTread:
		return p9p.MessageRread{Data: []byte(fmt.Sprintf("r%d", id))}, nil
	case p9p.MessageTstat:
		// timestamps on the wire's range (whole seconds, 32 bits)
		return p9p.MessageRstat{Stat: p9p.Dir{Name: fmt.Sprintf("r%d", id), AccessTime: time.Unix(1, 0).UTC(), ModTime: time.Unix(2, 0).UTC()}}, nil
	case p9p.MessageTwrite:
		return p9p.MessageRwrite{Count: uint32(1000 + id)}, nil
	case p9p.MessageTopen:
		return p9p.MessageRopen{IOUnit: uint32(1000 + id)}, nil
	case p9p.MessageTwalk:
		return p9p.MessageRwalk{Qids: []p9p.Qid{{Path: uint64(1000 + id)}}}, nil
	case p9p.MessageTclunk:
		return p9p.MessageRclunk{}, nil
	case p9p.MessageTcreate:
		return p9p.MessageRcreate{IOUnit: uint32(1000 + id)}, nil
	case p9p.MessageTremove:
		return p9p.MessageRremove{}, nil
	case p9p.MessageTwstat:
		return p9p.MessageRwstat{}, nil
	case p9p.MessageTattach:
		return p9p.MessageRattach{Qid: p9p.Qid{Path: uint64(1000 + id)}}, nil
	case p9p.MessageTauth:
		return p9p.MessageRauth{Qid: p9p.Qid{Path: uint64(1000 + id)}}, nil
	case p9p.MessageTversion:
		return p9p.MessageRversion{MSize: uint32(1000 + id), Version: "9P2000"}, nil
	}
	return nil, fmt.Errorf("e%d", id)
}

// replyID recovers the request identity from a reply payload (-1: none).
func replyID(m p9p.Message) int {
	var s string
	switch v := m.(type) {
	case p9p.MessageRread:
		s = string(v.Data)
	case p9p.MessageRstat:
		s = v.Stat.Name
	case p9p.MessageRerror:
		s = v.Ename
	case p9p.MessageRwrite:
		return int(v.Count) - 1000
	case p9p.MessageRopen:
		return int(v.IOUnit) - 1000
	case p9p.MessageRcreate:
		return int(v.IOUnit) - 1000
	case p9p.MessageRattach:
		return int(v.Qid.Path) - 1000
	case p9p.MessageRauth:
		return int(v.Qid.Path) - 1000
	case p9p.MessageRversion:
		return int(v.MSize) - 1000
	case p9p.MessageRwalk:
		if len(v.Qids) == 1 {
			return int(v.Qids[0].Path) - 1000
		}
		return -1
	}
	if len(s) >= 2 && (s[0] == 'r' || s[0] == 'e' || s[0] == 'c') {
		n := 0
		for _, ch := range s[1:] {
			if ch < '0' || ch > '9' {
				return -1
			}
			n = n*10 + int(ch-'0')
		}
		return n
	}
	return -1
}

func (h *scriptHandler) Handle(ctx context.Context, msg p9p.Message) (p9p.Message, error) {
	// Entering a handler is visible to harness code that inspects h.Calls
	// (C07 samples the flushed request's context): make it a hooked
	// operation on the object those inspections yield on, so that the state
	// cache keeps the two orders apart.
	vsched.Yield("handle.enter", vsched.CtxObj)
	inv := &invocation{Msg: msg, Ctx: ctx}
	h.Calls = append(h.Calls, inv)
	id := reqID(msg)
	vsched.Logf("handle start id=%d", id)
	defer func() {
		inv.Returned = true
	}()
	mode := h.Mode
	if mode == GateAll {
		h.started++
		vsched.WaitFor("handler.gate", vsched.CtxObj, func() bool { return h.started >= h.Gate })
		mode = IgnoreCtx
	}
	if mode == DepOn0 {
		if id == 0 {
			mode = BlockCtx
		} else {
			// like a clunk queued behind a blocked read on the same fid
			vsched.WaitFor("handler.dep", vsched.CtxObj, h.zeroReturned)
			mode = IgnoreCtx
		}
	}
	if mode == BlockCtx && id != 0 {
		mode = IgnoreCtx // only request 0 blocks until cancelled
	}
	switch mode {
	case HonourCtx:
		// completes or notices cancellation, whichever the schedule delivers
		ready := make(chan struct{}, 1)
		ready <- struct{}{}
		i, _, _ := vsched.Select("handler.wait", false, vsched.RecvCase(ctx.Done()), vsched.RecvCase(ready))
		if i == 0 {
			vsched.Logf("handle id=%d cancelled", id)
			return nil, fmt.Errorf("c%d", id)
		}
	case BlockCtx:
		// never completes on its own: returns only once cancelled
		vsched.Select("handler.block", false, vsched.RecvCase(ctx.Done()))
		vsched.Logf("handle id=%d cancelled", id)
		return nil, fmt.Errorf("c%d", id)
	default:
		for i := 0; i <= h.Steps; i++ {
			vsched.Yield("handler.work", 0)
		}
	}
	vsched.Logf("handle done id=%d", id)
	return resultFor(msg)
}

// zeroReturned: request 0's handler was invoked and has returned (evaluated
// by the scheduler).
//
//go:norace
func (h *scriptHandler) zeroReturned() bool {
	for _, inv := range h.Calls {
		if reqID(inv.Msg) == 0 && inv.Returned {
			return true
		}
	}
	return false
}

func (h *scriptHandler) Stop(err error) error {
	h.Stops++
	h.StopErr = err
	vsched.Logf("stop")
	return err
}

// serveRun is the per-execution state of a ServeConn scenario.
type serveRun struct {
	cli, srv  *vconn.Conn
	h         *scriptHandler
	ctx       context.Context
	cancel    context.CancelFunc
	serveRet  bool
	serveErr  error
	replies   []*p9p.Fcall // every frame the client read, decoded by refcodec
	badFrames []string
	sent      []*p9p.Fcall
	note      []string
	rversion  *p9p.MessageRversion
}

func newServeRun(sync bool, h *scriptHandler) *serveRun {
	r := &serveRun{h: h}
	r.cli, r.srv = vconn.Pipe(sync)
	r.cli.Name, r.srv.Name = "cli", "srv"
	r.ctx, r.cancel = context.WithCancel(context.Background())
	return r
}

func (r *serveRun) startServer() {
	vsched.Go("serve", func() {
		r.serveErr = p9p.ServeConn(r.ctx, r.srv, r.h)
		r.serveRet = true
		vsched.Logf("serve returned")
	})
}

func (r *serveRun) send(tag p9p.Tag, m p9p.Message) error {
	fc := &p9p.Fcall{Type: m.Type(), Tag: tag, Message: m}
	r.sent = append(r.sent, fc)
	_, err := r.cli.Write(refcodec.EncodeFrame(tag, m))
	return err
}

// recv reads one frame as the client; false when the stream ended.
func (r *serveRun) recv() (*p9p.Fcall, bool) {
	f, err := r.cli.ReadFrame()
	if err != nil {
		return nil, false
	}
	fc, trailing, derr := refcodec.Decode(f[4:])
	if derr != nil || trailing != 0 {
		r.badFrames = append(r.badFrames, fmt.Sprintf("% x: %v trailing=%d", f, derr, trailing))
		return nil, true
	}
	r.replies = append(r.replies, fc)
	return fc, true
}

func (r *serveRun) negotiate(msize uint32) bool {
	if err := r.send(p9p.NOTAG, p9p.MessageTversion{MSize: msize, Version: "9P2000"}); err != nil {
		return false
	}
	r.sent = r.sent[:0]
	fc, ok := r.recv()
	if !ok || fc == nil {
		return false
	}
	r.replies = r.replies[:0]
	rv, ok := fc.Message.(p9p.MessageRversion)
	if !ok {
		return false
	}
	r.rversion = &rv
	return true
}

func isDupErr(m p9p.Message) bool {
	e, ok := m.(p9p.MessageRerror)
	return ok && strings.Contains(e.Ename, "duplicate tag")
}

func blockedList(e *vsched.Exec) string {
	var s []string
	for _, b := range e.Blocked {
		s = append(s, b.Task+" at "+b.Op)
	}
	return strings.Join(s, "; ")
}

func panicList(e *vsched.Exec) string {
	var s []string
	for _, p := range e.Panics {
		s = append(s, p.Task+": "+p.Value)
	}
	return strings.Join(s, "; ")
}

func refcodecDecode(b []byte) (*p9p.Fcall, int, error) { return refcodec.Decode(b) }
