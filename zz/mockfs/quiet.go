package mockfs

import (
	"context"

	p9p "github.com/frobnitzem/go-p9p"
	"github.com/frobnitzem/go-p9p/zzverif/vsched"
)

// QuietFS is a file system without any mutable state shared between calls:
// a fixed tree, fresh immutable handles, constant file contents. It is what
// race-mode scenarios put under the session, so that every race the
// detector reports is inside the code under test. Every call contains one
// scheduling point.
type QuietFS struct{ root *Node }

func NewQuiet() *QuietFS { return &QuietFS{root: DefaultTree()} }

type qEnt struct {
	node *Node
}

type qFile struct{ node *Node }

func (fs *QuietFS) RequireAuth(ctx context.Context) bool { return false }
func (fs *QuietFS) Auth(ctx context.Context, u, a string) (p9p.AuthFile, error) {
	return nil, p9p.MessageRerror{Ename: "no auth"}
}
func (fs *QuietFS) Attach(ctx context.Context, u, a string, af p9p.AuthFile) (p9p.Dirent, error) {
	vsched.Yield("qfs.Attach", 0)
	return &qEnt{fs.root}, nil
}

func (e *qEnt) Qid() p9p.Qid {
	q := p9p.Qid{Path: e.node.Path}
	if e.node.Dir {
		q.Type = p9p.QTDIR
	}
	return q
}

func (e *qEnt) Walk(ctx context.Context, names ...string) ([]p9p.Qid, p9p.Dirent, error) {
	vsched.Yield("qfs.Walk", 0)
	n := e.node
	var qids []p9p.Qid
	for _, name := range names {
		var next *Node
		if n.Dir {
			next = n.Children[name]
		}
		if next == nil {
			break
		}
		n = next
		qids = append(qids, (&qEnt{n}).Qid())
	}
	if len(names) > 0 && len(qids) == 0 {
		return nil, nil, p9p.ErrNotfound
	}
	return qids, &qEnt{n}, nil
}

func (e *qEnt) OpenDir(ctx context.Context) (p9p.ReadNext, error) {
	vsched.Yield("qfs.OpenDir", 0)
	return func(ctx context.Context) ([]p9p.Dir, error) { return nil, nil }, nil
}
func (e *qEnt) Open(ctx context.Context, mode p9p.Flag) (p9p.File, error) {
	vsched.Yield("qfs.Open", 0)
	return &qFile{e.node}, nil
}
func (e *qEnt) Create(ctx context.Context, name string, perm uint32, mode p9p.Flag) (p9p.Dirent, p9p.File, error) {
	vsched.Yield("qfs.Create", 0)
	n := &Node{Dir: perm&p9p.DMDIR != 0, Path: 999, Children: map[string]*Node{}}
	return &qEnt{n}, &qFile{n}, nil
}
func (e *qEnt) Remove(ctx context.Context) error { vsched.Yield("qfs.Remove", 0); return nil }
func (e *qEnt) Clunk(ctx context.Context) error  { vsched.Yield("qfs.Clunk", 0); return nil }
func (e *qEnt) Stat(ctx context.Context) (p9p.Dir, error) {
	vsched.Yield("qfs.Stat", 0)
	return p9p.Dir{Name: "n", Qid: e.Qid()}, nil
}
func (e *qEnt) WStat(ctx context.Context, d p9p.Dir) error { vsched.Yield("qfs.WStat", 0); return nil }

func (f *qFile) Read(ctx context.Context, p []byte, off int64) (int, error) {
	vsched.Yield("qfs.Read", 0)
	if off >= int64(len(f.node.Data)) {
		return 0, nil
	}
	return copy(p, f.node.Data[off:]), nil
}
func (f *qFile) Write(ctx context.Context, p []byte, off int64) (int, error) {
	vsched.Yield("qfs.Write", 0)
	return len(p), nil
}
func (f *qFile) IOUnit() int { return 0 }
