// Package mockfs is an instrumented p9p.FileSys: a fixed tree, entry
// handles with a unique id and a bound/released life cycle, a
// use-after-release trap, an overlap monitor, and a per-call outcome menu
// (ok / error / partial walk) driven by the harness.
package mockfs

import (
	"context"
	"fmt"
	"strings"
	"unsafe"

	p9p "github.com/frobnitzem/go-p9p"
	"github.com/frobnitzem/go-p9p/zzverif/vsched"
)

// Outcome of one file-system call.
const (
	OK      = 0
	Fail    = 1
	Partial = 2 // Walk only: stop one element early
)

// Node of the fixed tree.
type Node struct {
	Dir      bool
	Children map[string]*Node
	Path     uint64
	Data     string
	Listing  []p9p.Dir // entries OpenDir yields (dirs only)
	Batches  []int     // sizes of the batches the iterator returns (nil: one batch)
}

type FS struct {
	Root     *Node
	Handles  []*Ent
	Calls    []string // "Walk#3(/a)[a b]" ...
	Problems []string
	// Decide returns the outcome of the n-th call (0-based) named call on
	// handle h (nil for Attach). nil: everything succeeds.
	Decide func(n int, call string, h *Ent) int
	// Concurrent makes entry and exit of every call a scheduling point, so
	// that overlapping calls on one handle can be observed.
	Concurrent bool
	// BlockRead: Read on a file blocks until its context is done.
	BlockRead bool
	// SlowStep: calls that take a scheduling point to complete
	// (attach/walk/open/create/clunk/remove/stat).
	SlowStep bool
	ncalls   int
	nextPath uint64
	AuthReq  bool
}

// Ent is one entry handle handed to the session.
type Ent struct {
	ID       int
	fs       *FS
	node     *Node
	PathStr  string
	IsDirF   bool
	Released int    // number of Clunk/Remove/consuming Create calls
	By       string // what released it
	inCall   int
	Opened   bool
	Dummy    bool // placeholder returned with a partial walk; must never be used
	Uses     int
	Creator  string // task inside whose file-system call the handle was made ("" outside the scheduler)
	file     *File
}

// File is the open-file object returned by Open / Create.
type File struct {
	ent     *Ent
	inCall  int
	refused bool // returned together with an error: any use is a misuse
}

// DefaultTree: / { a/ { b (file) , d/ {} }, c (file) }
func DefaultTree() *Node {
	b := &Node{Path: 12, Data: "content-of-b"}
	d := &Node{Dir: true, Path: 13, Children: map[string]*Node{}}
	a := &Node{Dir: true, Path: 11, Children: map[string]*Node{"b": b, "d": d}}
	c := &Node{Path: 14, Data: "content-of-c"}
	return &Node{Dir: true, Path: 10, Children: map[string]*Node{"a": a, "c": c}}
}

// ParentPath is the path one level up ("/" stays "/").
func ParentPath(p string) string {
	p = strings.TrimSuffix(p, "/")
	i := strings.LastIndex(p, "/")
	if i <= 0 {
		return "/"
	}
	return p[:i]
}

// LookupIn resolves an absolute path in the tree rooted at root.
func LookupIn(root *Node, path string) *Node {
	n := root
	for _, el := range strings.Split(strings.Trim(path, "/"), "/") {
		if el == "" {
			continue
		}
		if n == nil || !n.Dir {
			return nil
		}
		n = n.Children[el]
	}
	return n
}

// Lookup resolves an absolute path in this file system's tree.
func (fs *FS) Lookup(path string) *Node { return LookupIn(fs.Root, path) }

func New() *FS { return &FS{Root: DefaultTree(), nextPath: 100} }

func (fs *FS) problem(format string, a ...any) {
	fs.Problems = append(fs.Problems, fmt.Sprintf(format, a...))
}

// begin records a call and returns its outcome.
func (fs *FS) begin(call string, h *Ent, detail string) int {
	n := fs.ncalls
	fs.ncalls++
	id := -1
	if h != nil {
		id = h.ID
		h.Uses++
		if h.Dummy {
			fs.problem("%s called on the placeholder returned with a partial walk", call)
		}
		if h.Released > 0 {
			fs.problem("%s called on entry #%d (%s) after it was released by %s", call, h.ID, h.PathStr, h.By)
		}
		if h.inCall > 0 || (h.file != nil && h.file.inCall > 0) {
			fs.problem("%s on entry #%d (%s) overlaps another call on the same entry or its open file", call, h.ID, h.PathStr)
		}
		h.inCall++
	}
	fs.Calls = append(fs.Calls, fmt.Sprintf("%s#%d%s", call, id, detail))
	out := OK
	if fs.Decide != nil {
		out = fs.Decide(n, call, h)
	}
	if fs.Concurrent {
		vsched.Yield("fs."+call+".enter", objOf(h))
	}
	return out
}

// objOf is the happens-before identity of an entry: calls on one entry are
// dependent operations (the overlap monitor observes their order).
func objOf(h *Ent) uintptr {
	if h == nil {
		return 0
	}
	return uintptr(unsafe.Pointer(h))
}

func (fs *FS) end(h *Ent) {
	if fs.Concurrent || fs.SlowStep {
		vsched.Yield("fs.exit", objOf(h))
	}
	if h != nil {
		h.inCall--
	}
}

func (fs *FS) NCalls() int { return fs.ncalls }

func (fs *FS) newEnt(n *Node, path string) *Ent {
	e := &Ent{ID: len(fs.Handles), fs: fs, node: n, PathStr: path, IsDirF: n.Dir, Creator: vsched.TaskName()}
	fs.Handles = append(fs.Handles, e)
	return e
}

var errInjected = p9p.MessageRerror{Ename: "injected failure"}

func (fs *FS) RequireAuth(ctx context.Context) bool { return fs.AuthReq }

func (fs *FS) Auth(ctx context.Context, uname, aname string) (p9p.AuthFile, error) {
	return nil, p9p.MessageRerror{Ename: "no auth"}
}

func (fs *FS) Attach(ctx context.Context, uname, aname string, af p9p.AuthFile) (p9p.Dirent, error) {
	out := fs.begin("Attach", nil, "")
	defer fs.end(nil)
	if out != OK {
		return nil, errInjected
	}
	return fs.newEnt(fs.Root, "/"), nil
}

func (e *Ent) Qid() p9p.Qid {
	q := p9p.Qid{Path: e.node.Path}
	if e.IsDirF {
		q.Type = p9p.QTDIR
	}
	return q
}

func (e *Ent) Walk(ctx context.Context, names ...string) ([]p9p.Qid, p9p.Dirent, error) {
	out := e.fs.begin("Walk", e, fmt.Sprint(names))
	defer e.fs.end(e)
	if out == Fail {
		return nil, nil, errInjected
	}
	if len(names) == 0 {
		return nil, e.fs.newEnt(e.node, e.PathStr), nil
	}
	var qids []p9p.Qid
	n := e.node
	path := e.PathStr
	limit := len(names)
	if out == Partial {
		limit--
	}
	for i, name := range names {
		if i >= limit {
			break
		}
		var next *Node
		np := path
		if name == ".." {
			// the parent (the root is its own parent)
			np = ParentPath(path)
			next = e.fs.Lookup(np)
		} else {
			if n.Dir {
				next = n.Children[name]
			}
			np = strings.TrimSuffix(path, "/") + "/" + name
		}
		if next == nil {
			break
		}
		n = next
		path = np
		q := p9p.Qid{Path: n.Path}
		if n.Dir {
			q.Type = p9p.QTDIR
		}
		qids = append(qids, q)
	}
	if len(qids) == 0 {
		return nil, nil, p9p.ErrNotfound
	}
	if len(qids) < len(names) {
		return qids, &Ent{ID: -1, fs: e.fs, node: e.fs.Root, Dummy: true, PathStr: "<partial>"}, nil
	}
	return qids, e.fs.newEnt(n, path), nil
}

func (e *Ent) Open(ctx context.Context, mode p9p.Flag) (p9p.File, error) {
	out := e.fs.begin("Open", e, fmt.Sprintf("(%d)", mode))
	defer e.fs.end(e)
	if out != OK {
		// a failing call may hand back a non-nil value with its error (Go
		// APIs do): it must be ignored
		return &File{ent: e, refused: true}, errInjected
	}
	e.Opened = true
	e.file = &File{ent: e}
	return e.file, nil
}

func (e *Ent) OpenDir(ctx context.Context) (p9p.ReadNext, error) {
	out := e.fs.begin("OpenDir", e, "")
	defer e.fs.end(e)
	if out != OK {
		return nil, errInjected
	}
	e.Opened = true
	list := e.node.Listing
	batches := append([]int(nil), e.node.Batches...)
	pos := 0
	return func(ctx context.Context) ([]p9p.Dir, error) {
		if pos >= len(list) {
			return nil, nil
		}
		n := len(list) - pos
		if len(batches) > 0 {
			if batches[0] < n {
				n = batches[0]
			}
			batches = batches[1:]
		}
		out := list[pos : pos+n]
		pos += n
		return out, nil
	}, nil
}

func (e *Ent) Create(ctx context.Context, name string, perm uint32, mode p9p.Flag) (p9p.Dirent, p9p.File, error) {
	out := e.fs.begin("Create", e, fmt.Sprintf("(%s,%#x,%d)", name, perm, mode))
	defer e.fs.end(e)
	if out != OK {
		return nil, nil, errInjected
	}
	e.fs.nextPath++
	n := &Node{Dir: perm&p9p.DMDIR != 0, Path: e.fs.nextPath, Children: map[string]*Node{}}
	ne := e.fs.newEnt(n, strings.TrimSuffix(e.PathStr, "/")+"/"+name)
	ne.Opened = true
	ne.file = &File{ent: ne}
	// the parent handle is consumed by a successful create
	e.Released++
	e.By = "Create"
	return ne, ne.file, nil
}

func (e *Ent) Remove(ctx context.Context) error {
	out := e.fs.begin("Remove", e, "")
	defer e.fs.end(e)
	e.Released++
	e.By = "Remove"
	if out != OK {
		return errInjected
	}
	return nil
}

func (e *Ent) Clunk(ctx context.Context) error {
	out := e.fs.begin("Clunk", e, "")
	defer e.fs.end(e)
	e.Released++
	e.By = "Clunk"
	if out != OK {
		return errInjected
	}
	return nil
}

func (e *Ent) Stat(ctx context.Context) (p9p.Dir, error) {
	out := e.fs.begin("Stat", e, "")
	defer e.fs.end(e)
	if out != OK {
		return p9p.Dir{}, errInjected
	}
	return p9p.Dir{Name: e.PathStr, Qid: e.Qid(), Length: uint64(len(e.node.Data))}, nil
}

func (e *Ent) WStat(ctx context.Context, d p9p.Dir) error {
	out := e.fs.begin("WStat", e, "")
	defer e.fs.end(e)
	if out != OK {
		return errInjected
	}
	return nil
}

func (f *File) enter(call string) int {
	if f.refused {
		f.ent.fs.problem("%s called on the file object that a failed Open returned together with its error", call)
	}
	fs := f.ent.fs
	e := f.ent
	n := fs.ncalls
	fs.ncalls++
	e.Uses++
	if e.Released > 0 && e.By != "Create" {
		fs.problem("File.%s on entry #%d (%s) after it was released by %s", call, e.ID, e.PathStr, e.By)
	}
	if f.inCall > 0 || e.inCall > 0 {
		fs.problem("File.%s on entry #%d (%s) overlaps another call on the same entry", call, e.ID, e.PathStr)
	}
	f.inCall++
	fs.Calls = append(fs.Calls, fmt.Sprintf("File.%s#%d", call, e.ID))
	out := OK
	if fs.Decide != nil {
		out = fs.Decide(n, "File."+call, e)
	}
	if fs.Concurrent {
		vsched.Yield("fs.File."+call+".enter", objOf(e))
	}
	return out
}

func (f *File) exit() {
	if f.ent.fs.Concurrent || f.ent.fs.SlowStep {
		vsched.Yield("fs.exit", objOf(f.ent))
	}
	f.inCall--
}

func (f *File) Read(ctx context.Context, p []byte, offset int64) (int, error) {
	out := f.enter("Read")
	defer f.exit()
	if f.ent.fs.BlockRead {
		vsched.Select("fs.Read.block", false, vsched.RecvCase(ctx.Done()))
		return 0, ctx.Err()
	}
	if out != OK {
		return 0, errInjected
	}
	d := f.ent.node.Data
	if offset < 0 || offset >= int64(len(d)) {
		return 0, nil
	}
	return copy(p, d[offset:]), nil
}

func (f *File) Write(ctx context.Context, p []byte, offset int64) (int, error) {
	out := f.enter("Write")
	defer f.exit()
	if out != OK {
		return 0, errInjected
	}
	return len(p), nil
}

func (f *File) IOUnit() int { return 0 }

// Ent returns the entry a File belongs to.
func (f *File) Ent() *Ent { return f.ent }
